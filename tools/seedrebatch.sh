#!/bin/sh
# seedrebatch.sh <ID>...: re-run the owning property's quick check against stored seeds, in the isolated copy
cd /verif
for id in "$@"; do
  prop=$(echo $id | cut -c1-3)
  tools/seediso.sh >/dev/null
  python3 tools/seedrecheck.py $id $prop --root ${SV_ROOT:-/tmp/sv} 2>&1 | tail -1
done
