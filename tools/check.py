#!/usr/bin/env python3
"""check.py <ID> --tier quick|thorough | setup | replay <path> | selftest   (cwd /verif)

exit 0: property held on everything explored (KNOWN-FINDING lines possible)
exit 1: VIOLATION property=<ID> replay=<path>
exit 2: tool error / inconclusive (never an alarm)
"""
import argparse, json, os, re, sys, traceback

sys.path.insert(0, os.path.dirname(os.path.abspath(__file__)))
import tlc, vlib  # noqa: E402
from vlib import Run, ToolError, WORK  # noqa: E402

NCPU = os.cpu_count() or 8
TLC_WORKERS = max(2, min(12, NCPU - 4))

DEV_OFF = {"DropOrder": '"reverse"', "ResetCounterOnInstall": "TRUE", "MprotectSpan": '"range"', "VerifySilent": "TRUE",
           "SwallowPoison": "TRUE", "UnlockFirst": "FALSE", "FlushEntry": "TRUE", "UnmapOnDrop": "TRUE"}


# =============================================================== lifecycle family

JUMP_FLAVOURS = ["raw", "rawfn", "closure", "fake", "unchecked"]
POOL_FLAVOURS = {"rust": JUMP_FLAVOURS, "rustpg": JUMP_FLAVOURS, "libc": ["raw", "fake", "unchecked"], "generic": ["raw", "unchecked"],
                 "async": ["async", "async_unchecked"]}


def choose_pool(hist, sid):
    """rotate the pools of real targets over the behaviours, subject to what each pool can express"""
    inst = [h for h in hist if h["act"] == "Install"]
    has_bool = any(h["kind"] == "bool" for h in inst)
    has_counted = any(h["n"] >= 0 for h in inst)
    gates = set(h["gate"] for h in inst)
    faults = set(h["fault"] for h in inst)
    calls = any(h["act"] in ("Call", "CallUnwind") and not h.get("match", True) for h in hist)
    cands = ["rust"]
    # counted fakes are kept on Rust-ABI targets: a panic inside an extern "C" fake aborts by language rule
    if not has_bool and not has_counted and gates <= {"ok", "sig", "bool", "null", "abandon"} and not calls:
        cands.append("libc")
    if not has_counted and gates <= {"ok", "sig", "abandon"} and not calls:
        cands.append("generic")
    if not has_bool and not has_counted and gates <= {"ok", "sig", "abandon"} and not calls:
        cands.append("async")
    return cands[sid % len(cands)]


def hist_to_scenario(hist, sid, pool, nf, diff, reuse_sites=False):
    """TLC behaviour (list of API-level records) -> harness scenario.  With reuse_sites the model's
    site number is the real fake! expansion site (the same source line evaluated again in a later
    lifetime, C07); otherwise every installation gets a site of its own."""
    lives, cur, site = [], None, 0
    ninst = 0
    # every fourth scenario on the Rust pools: the typed pointer to a target is not made where it is used -- one is made (and
    # kept) at the start of a lifetime and right after every installation, the next installation of that function takes it
    stash = pool in ("rust", "rustpg") and sid % 4 == 1
    for h in hist:
        a = h["act"]
        if a == "New":
            cur = {"kind": "inj", "steps": []}
            lives.append(cur)
            if stash:
                cur["steps"].append({"op": "mkptr"})
        elif a == "Probe":
            if cur is not None:
                cur["steps"].append({"op": "probe"})
        elif a == "Install":
            ninst += 1
            st = {"op": "install", "f": int(h["f"][1:]), "kind": h["kind"], "fake": h["fake"], "gate": h["gate"],
                  "fault": h["fault"], "n": h["n"], "site": 0, "caught": bool(h.get("caught", False))}
            if h["n"] >= 0:
                site += 1
                st["site"] = h["site"] if reuse_sites else site
                # every third scenario on the Rust pools: the counted fake is a hand-written pair (counting function +
                # CallCountVerifier::WithCount) that goes in through when_called_unchecked(..).will_execute(..)
                st["flavour"] = "countedpair" if (pool in ("rust", "rustpg") and h["gate"] == "ok" and sid % 3 == 2) else "counted"
            elif h["kind"] == "bool":
                st["flavour"] = "bool"
            else:
                fl = POOL_FLAVOURS.get(pool, JUMP_FLAVOURS)
                # odd scenarios: a fake keeps its flavour (the SAME replacement function installed again later);
                # even scenarios: the flavour rotates with every installation
                st["flavour"] = fl[(sid + (int(h["fake"][1:]) if h["fake"][1:].isdigit() else 0)) % len(fl)] if sid % 2 else fl[(sid + ninst) % len(fl)]
            cur["steps"].append(st)
            if stash:
                cur["steps"].append({"op": "mkptr"})
        elif a == "Panic":
            cur["steps"].append({"op": "panic"})
        elif a == "Call":
            cur["steps"].append({"op": "call", "f": int(h["f"][1:]), "match": h["match"]})
        elif a == "CallUnwind":
            cur["steps"].append({"op": "call_unwind", "f": int(h["f"][1:]), "match": h["match"]})
        elif a == "End":
            cur = None
        elif a == "Regen":
            lives.append({"kind": "regen", "f": int(h["f"][1:]), "steps": []})
    return {"id": sid, "pool": pool, "nf": nf, "diff": diff, "lives": lives, "ctor": "default" if sid % 3 == 0 else "new"}


def variant_label(sc):
    if sc.get("ambient"):
        return " [ambient unwinding]"
    if sc["lives"] and sc["lives"][0].get("drop_fault"):
        return " [munmap fails at scope exit]"
    if sc["lives"] and sc["lives"][0].get("deny"):
        return " [target page never writable]" if sc["lives"][0]["deny"] == "page" else " [second page of a straddling target never writable]"
    return ""


def history_key(hist):
    parts = []
    for h in hist:
        a = h["act"]
        if a == "Install":
            parts.append("I(%s,%s,%s,n=%s,%s,%s)" % (h["f"], h["kind"], h["fake"], h["n"], h["gate"], h["fault"]))
        elif a in ("Call", "CallUnwind"):
            parts.append("%s(%s,%s)" % (a, h["f"], "match" if h["match"] else "nomatch"))
        elif a in ("Panic", "Drop", "New", "Regen"):
            parts.append(a)
    return " ".join(parts)


def compare_replay(hist, events, nf):
    """spec -> impl: the projection of the specification's state after every API action against
    what the real library did.  Returns list of (property, detail)."""
    bad = []
    calls = []
    ev_i = 0
    evs = [e for e in events if e["ev"] in ("Call", "InstallEnd", "DropEnd", "ChildExit", "Acquire")]
    exp = [h for h in hist if h["act"] in ("Probe", "InstallOk", "InstallPanic", "InstallAbandoned", "End", "VerifyPanic", "Call", "CallUnwind")]
    pending_verify = None
    after_end = False
    unwound_end = False
    # a trampoline allocated by an installation that then fails in mprotect is never released
    # (observed, outside the listed properties: C12 speaks of successful installations)
    orphans = sum(1 for h in hist if h["act"] == "Install" and h.get("fault") == "mprotect")
    for h in exp:
        a = h["act"]
        if a == "Probe":
            got = []
            while ev_i < len(evs) and evs[ev_i]["ev"] in ("Acquire",):
                ev_i += 1
            while ev_i < len(evs) and evs[ev_i]["ev"] == "Call" and len(got) < nf:
                got.append(evs[ev_i]["res"])
                ev_i += 1
            want = list(h["out"])[:nf]
            # functions the behaviour's model does not have are never named: they must answer as originals
            if got[:len(want)] != want or any(x != "orig" for x in got[len(want):]):
                if after_end:
                    bad.append(("C02", "after scope exit calls answered by %s, specification says %s" % (got, h["out"])))
                    if unwound_end:
                        bad.append(("C05", "after unwinding calls answered by %s, specification says %s" % (got, h["out"])))
                elif any(("panic" in str(x)) or ("panic" in str(y)) for x, y in zip(got, h["out"])):
                    bad.append(("C06", "counted fake: calls answered by %s, specification says %s" % (got, h["out"])))
                else:
                    bad.append(("C02", "while installed calls answered by %s, specification says %s" % (got, h["out"])))
            after_end = False
        elif a == "Call":
            while ev_i < len(evs) and evs[ev_i]["ev"] != "Call":
                ev_i += 1
            if ev_i < len(evs):
                if evs[ev_i]["res"] != h["out"]:
                    bad.append(("C06", "call answered %s, specification says %s" % (evs[ev_i]["res"], h["out"])))
                ev_i += 1
        elif a == "CallUnwind":
            # the call must not return: if it did, the harness logged a Call event
            if ev_i < len(evs) and evs[ev_i]["ev"] == "Call" and evs[ev_i].get("after_unwind_call"):
                bad.append(("C06", "call returned %s, specification says it panics (%s)" % (evs[ev_i]["res"], h["out"])))
                ev_i += 1
        elif a in ("InstallOk", "InstallPanic", "InstallAbandoned"):
            while ev_i < len(evs) and evs[ev_i]["ev"] != "InstallEnd":
                ev_i += 1
            if ev_i >= len(evs):
                bad.append(("C05", "installation never returned (process died?)"))
                break
            e = evs[ev_i]
            ev_i += 1
            if a == "InstallAbandoned" and e["outcome"] != "abandoned":
                bad.append(("C03", "a builder dropped without a terminal call ended as %s" % e["outcome"]))
            if a == "InstallOk" and e["outcome"] != "ok":
                bad.append(("C01", "installation panicked (%s) where the specification installs" % e.get("msg", "")))
            if a == "InstallPanic":
                want = {"sig": "sig-mismatch", "bool": "bool-gate", "null": "null"}.get(h["cls"], h["cls"])
                if e["outcome"] != "panic":
                    bad.append(("C09", "installation accepted where the specification refuses (%s)" % want))
                elif e["cls"] != want:
                    bad.append(("C09", "installation panicked with class %s, specification says %s" % (e["cls"], want)))
        elif a == "VerifyPanic":
            pending_verify = h
        elif a == "End":
            while ev_i < len(evs) and evs[ev_i]["ev"] != "DropEnd":
                ev_i += 1
            if ev_i >= len(evs):
                bad.append(("C05", "scope exit never completed (process died?)"))
                break
            e = evs[ev_i]
            ev_i += 1
            if pending_verify is not None:
                cands = [tuple(c) for c in pending_verify.get("cands", [])] or [(pending_verify["exp"], pending_verify["got"])]
                if e["outcome"] != "panic" or e["cls"] != "count" or (e["exp"], e["act"]) not in cands:
                    bad.append(("C06", "scope exit: %s/%s exp=%s act=%s; specification: count panic exp=%s got=%s" % (
                        e["outcome"], e["cls"], e.get("exp"), e.get("act"), pending_verify["exp"], pending_verify["got"])))
            elif e["outcome"] != "ok":
                bad.append(("C06", "scope exit raised %s (%s); specification: silent" % (e["cls"], e.get("msg", ""))))
            if e["panics"] != h["panics"]:
                bad.append(("C05", "panics in lifetime %s, specification %s" % (e["panics"], h["panics"])))
            if e["live"] > orphans:
                bad.append(("C12", "%s owned mappings still mapped after scope exit (%s orphaned by failed installations)" % (e["live"], orphans)))
            if e["lock"] == 1:
                bad.append(("C05", "guard still held after scope exit"))
            pending_verify = None
            after_end = True
            unwound_end = bool(h.get("unwound"))
    for e in events:
        if e["ev"] == "ChildExit" and (e["signal"] != 0 or e["code"] != 0):
            bad.append(("CRASH", "process ended with signal %s code %s" % (e["signal"], e["code"])))
    return bad


def caught_behaviours(run, tier, tag):
    """behaviours of MC_LifecycleApi_cr in which the caller catches the panic of at least one refused or failed installation
    (signature gate, mmap, mprotect) and goes on using the same injector: further installations, calls, a normal scope exit"""
    hc, gc = gen_behaviours("MC_LifecycleApi_cr", timeout=3000, workers=4)
    run.states += gc["distinct"]
    run.transitions += gc["generated"]
    # several workers print in any order: sort, so that the seeded sample below is the same on every run
    hc = sorted((h for h in hc if any(x["act"] == "Install" and x.get("caught") for x in h)), key=lambda h: json.dumps(h, sort_keys=True))
    rnd = vlib.rnd("caught-" + tag)
    n = 500 if tier == "quick" else 5000
    if len(hc) > n:
        hc = rnd.sample(hc, n)
    run.extra["caught_refusal_histories"] = len(hc)
    return hc


def gen_behaviours(cfg, tier_seed_sim=None, timeout=900, workers=1):
    r = tlc.check("MC_LifecycleApi", cfg, workers=workers, timeout=timeout, coverage=False)
    if r["violation"]:
        raise ToolError("generator spec violated: %s" % r["violation"])
    return tlc.parse_replay_lines(r["prints"]), r


def lifecycle_models(run, tier, overrides=None):
    cfgs = ["MC_Lifecycle_q1", "MC_Lifecycle_q2", "MC_Steps_q"] if tier == "quick" else \
           ["MC_Lifecycle_q1", "MC_Lifecycle_q2", "MC_Lifecycle_t", "MC_Steps_t"]
    if run.prop in ("C02", "C03"):
        # + the environment replaces a function's code between lifetimes (Regenerate)
        cfgs.insert(2, "MC_Lifecycle_rgq" if tier == "quick" else "MC_Lifecycle_rg")
    if run.prop in ("C03", "C12"):
        # + the rest of the process takes over an address the library has given back (ForeignTake)
        cfgs.insert(2, "MC_Lifecycle_fr")
    for c in cfgs:
        cfg = c
        if overrides:
            cfg = tlc.make_cfg(c, overrides, c + "_dev")
        r = tlc.check("MC_Lifecycle", cfg, workers=TLC_WORKERS, timeout=3000)
        run.add_model(r, required_actions=("InstallEnd", "Restore", "Unmap", "Unlock", "WriteEntry"))
        if r["violation"]:
            run.design_violation(r)
            return r
    return None


PROP_OF_TRACE_EVENT = {}


def lifecycle_check(prop, tier):
    run = Run(prop, tier)
    run.rule = ("behaviours = every maximal API-level history of MC_LifecycleApi (installs over 2 functions x kinds x gate "
                "outcomes x injected mmap/mprotect faults, exit by scope end or panic), each executed on the real library "
                "in a child process with the OS-level event stream recorded and validated by TLC against Trace_Api; "
                "distinct = distinct history keys; non-trivial = history contains at least one installation")
    run.assumptions = ["the harness's interposed mmap/munmap/mprotect/__clear_cache see every OS call the library makes",
                       "memory watch covers entry slots (32 bytes), owned trampolines and all r-x file mappings",
                       "TLC, the TLA+ modules in /verif/spec, the Linux kernel"]
    lifecycle_models(run, tier)
    gen = {"C05": ("c5q", "c5t"), "C07": ("c7q", "c7t"), "C06": ("c6q", "c6t")}.get(prop, ("q", "t"))
    cfg = "MC_LifecycleApi_" + (gen[0] if tier == "quick" else gen[1])
    hists, gr = gen_behaviours(cfg, timeout=3000)
    if prop == "C07" and tier == "thorough":
        # three and four consecutive lifetimes through the same lines: lifetimes are independent in the model (the counter
        # starts from zero at every installation), so chains of one-lifetime behaviours are behaviours
        h1, g1 = gen_behaviours("MC_LifecycleApi_c71", timeout=3000)
        rnd7 = vlib.rnd("c7chain")
        for _ in range(1500):
            chain = []
            for h in rnd7.sample(h1, rnd7.choice([3, 4])):
                chain += h
            hists.append(chain)
    if prop == "C07":
        # the counted line in the company of other installations (forced booleans, plain fakes, another function) in
        # the same injector, before or after it; chains of 2-3 such lifetimes through the same line
        hm, gm = gen_behaviours("MC_LifecycleApi_c7m", timeout=3000)
        run.states += gm["distinct"]
        run.transitions += gm["generated"]
        # one source line has one `times` expression: installations of the same line within a lifetime agree on n
        hm = [h for h in hm if len(set(x["n"] for x in h if x["act"] == "Install" and x["n"] >= 0)) == 1]
        rndm = vlib.rnd("c7mixed")
        nmixed = 400 if tier == "quick" else 2000
        for _ in range(nmixed):
            chain = []
            for h in rndm.sample(hm, rndm.choice([2, 2, 3])):
                chain += h
            hists.append(chain)
        run.extra["mixed_company_chains"] = nmixed
    if prop == "C07":
        # the same fake! line installed again while an earlier installation of it is alive (a loop body)
        hr, gr2 = gen_behaviours("MC_LifecycleApi_c7r", timeout=3000)
        hists += hr
        run.states += gr2["distinct"]
        run.transitions += gr2["generated"]
    if prop in ("C02", "C12", "C05"):
        hists += caught_behaviours(run, tier, prop)
    if prop in ("C02", "C03", "C12", "C17", "C05"):
        # longer histories over a smaller alphabet (three installs: A,B,A patterns)
        h3, g3 = gen_behaviours("MC_LifecycleApi_q3" if tier == "quick" else "MC_LifecycleApi_t3", timeout=3000)
        hists += h3
        run.states += g3["distinct"]
        run.transitions += g3["generated"]
        # every pattern of up to three installations on ONE function over two fakes and both forced values (A,B,A with
        # the very same replacement installed again); each twice: flavours kept per fake / rotating
        h3f, g3f = gen_behaviours("MC_LifecycleApi_q3f", timeout=3000)
        hists += [h for h in h3f for _ in (0, 1)]
        run.states += g3f["distinct"]
        run.transitions += g3f["generated"]
    if prop in ("C02", "C03", "C12", "C17", "C05", "C04"):
        # long lifetimes (up to 10 installations over 2 functions, mixed kinds) sampled by TLC's simulator
        rl = tlc.check("MC_LifecycleApi", "MC_LifecycleApi_long", workers=1, timeout=3000, coverage=False,
                       sim={"num": 80 if tier == "quick" else 2000, "depth": 600, "seed": vlib.seed()})
        if rl["violation"]:
            raise ToolError("generator spec violated: %s" % rl["violation"])
        seenl = set()
        for h in tlc.parse_replay_lines(rl["prints"]):
            k = json.dumps(h, sort_keys=True)
            if k not in seenl and sum(1 for x in h if x["act"] == "InstallOk") >= 4:
                seenl.add(k)
                hists.append(h)
        run.extra["long_histories"] = len(seenl)
    regen_from = len(hists)
    if prop in ("C02", "C03"):
        # three lifetimes with the function's code replaced by the environment in between (pool "rustpg")
        hg, gg = gen_behaviours("MC_LifecycleApi_rg", timeout=3000)
        if tier == "quick":
            hg = [h for k, h in enumerate(hg) if k % 4 == vlib.seed() % 4]
        hists += hg
        run.states += gg["distinct"]
        run.transitions += gg["generated"]
        run.extra["regenerated_code_histories"] = len(hg)
    regen_to = len(hists)
    nchained = 0
    if prop == "C05":
        # "repeated for many consecutive lifetimes": lifetimes are independent in the model, so the
        # concatenation of behaviours is a behaviour; run them again chained in one process
        rnd = vlib.rnd("chain")
        singles = [h for h in hists]
        k = 0
        while k < len(singles):
            chain = []
            for h in singles[k:k + 8]:
                chain += h
            hists.append(chain)
            nchained += 1
            k += 8
    run.models.append({"module": "MC_LifecycleApi", "cfg": cfg, "distinct": gr["distinct"], "generated": gr["generated"],
                       "behaviours": len(hists)})
    run.states += gr["distinct"]
    run.transitions += gr["generated"]
    vlib.build_harness()
    nf = 2 if any(x.get("f") == "f2" for h in hists for x in h) or prop in ("C02", "C03", "C12", "C17") else 1
    scen = []
    for i, h in enumerate(hists, 1):
        pool = "rust" if prop in ("C07", "C06") or nf == 1 else choose_pool(h, i)
        if regen_from < i <= regen_to:
            pool = "rustpg"
        # chained lifetimes (C05) evaluate the same fake! lines again, as a test body run in a loop would
        chained = prop == "C05" and i > len(hists) - nchained
        scen.append(hist_to_scenario(h, i, "rust" if chained else pool, nf, diff=(prop == "C03" or i % 7 == 0),
                                     reuse_sites=(prop == "C07" or chained)))
    # the same behaviours again while the thread is already unwinding from an unrelated panic (a sample):
    # validated by the trace specification only (the verifier is silent then, everything else is unchanged)
    n_plain = len(scen)
    if prop not in ("C07",):
        for i in range(0, n_plain, 5):
            sc = json.loads(json.dumps(scen[i]))
            sc["id"] = len(scen) + 1
            sc["ambient"] = True
            sc["pool"] = "rustpg" if sc["pool"] == "rustpg" else "rust"
            for life in sc["lives"]:
                for st in life["steps"]:
                    if st.get("op") == "install" and st.get("flavour") not in JUMP_FLAVOURS + ["counted", "countedpair", "bool"]:
                        st["flavour"] = "raw"
            # sites are per process: fine (each scenario is its own child)
            scen.append(sc)
            hists.append(hists[i])
    if prop in ("C17", "C05"):
        # fault enumeration at the OS boundary of the scope exit: the first munmap fails (the library ignores the
        # result); validated by the trace specification only
        for i in range(0, n_plain, 4):
            if not any(st.get("op") == "install" and st.get("gate") == "ok" and st.get("fault") == "none"
                       for life in scen[i]["lives"] for st in life["steps"]):
                continue
            sc = json.loads(json.dumps(scen[i]))
            sc["id"] = len(scen) + 1
            for life in sc["lives"]:
                life["drop_fault"] = "munmap"
            scen.append(sc)
            hists.append(hists[i])
    if prop in ("C17", "C05", "C02"):
        # the faulted target sits on a page that NEVER becomes writable (a sealed or read-only file mapping), not just
        # once: targets on pages of their own (pool "rustpg"); behaviours where the refused function is not
        # installed otherwise in that lifetime (the page would refuse those too).  Trace specification only.
        ndeny = 0
        for i in range(n_plain):
            sc0 = scen[i]
            okb = False
            for life in sc0["lives"]:
                ins = [st for st in life["steps"] if st.get("op") == "install"]
                den = [st for st in ins if st.get("fault") == "mprotect" and st.get("gate") == "ok"]
                if den and all(st["f"] != d["f"] or st is d for d in den for st in ins) and len(den) == 1:
                    okb = True
                elif den:
                    okb = False
                    break
            if not okb:
                continue
            sc = json.loads(json.dumps(sc0))
            sc["id"] = len(scen) + 1
            sc["pool"] = "rustpg"
            for life in sc["lives"]:
                life["deny"] = "page"
                for st in life["steps"]:
                    if st.get("op") == "install" and st.get("flavour") not in JUMP_FLAVOURS + ["counted", "countedpair", "bool"]:
                        st["flavour"] = "raw"
            scen.append(sc)
            hists.append(hists[i])
            ndeny += 1
            if any(st.get("fault") == "mprotect" and st.get("f") == 2 for life in sc["lives"] for st in life["steps"]):
                # f2 of this pool straddles a page boundary: only its SECOND page refuses
                sc2 = json.loads(json.dumps(sc))
                sc2["id"] = len(scen) + 1
                for life in sc2["lives"]:
                    life["deny"] = "page2"
                scen.append(sc2)
                hists.append(hists[i])
                ndeny += 1
        run.extra["denied_page_variants"] = ndeny
    groups, order, _ = vlib.run_harness("lifecycle", scen, "lifecycle_" + prop)
    # spec -> impl
    nviol = 0
    for i, h in enumerate(hists, 1):
        if i in vlib.NOT_RUN:
            continue
        evs = groups.get(i, [])
        key = history_key(h) + (variant_label(scen[i - 1]) if i > n_plain else "")
        if any(x["act"] == "Install" for x in h):
            run.note_case(key)
        else:
            run.evaluations += 1
        bad = compare_replay(h, evs, nf) if i <= n_plain else []
        mine = [b for b in bad if b[0] == prop or (b[0] == "CRASH" and prop in ("C02", "C05"))
                or (prop == "C07" and b[0] == "C06")]
        if mine:
            nviol += 1
            run.violation("%s history=%s" % (prop, key), {"behaviour": h, "scenario": scen[i - 1], "mismatch": mine,
                                                           "events": evs[-40:]})
        if i in (2, len(hists) // 2, len(hists)):
            run.sample({"behaviour": h})
    # impl -> spec
    cfgp = tlc.make_cfg("Trace_Api", {"Props": '{"%s", "ALL"}' % prop}, "Trace_Api_" + prop)
    tv = tlc.validate_traces("Trace_Api", cfgp, [(i, groups.get(i, [])) for i in range(1, len(hists) + 1)],
                             WORK, "trace_" + prop, timeout=3000)
    run.traces += len(tv["accepted"])
    run.extra["trace_events"] = sum(len(groups.get(i, [])) for i in range(1, len(hists) + 1))
    run.extra["trace_validation"] = {"scenarios": len(tv["ids"]), "accepted": len(tv["accepted"]),
                                     "tlc_states": tv["states"], "wall_s": round(tv["wall"], 1)}
    run.states += tv["states"]
    run.transitions += tv["transitions"]
    for sid in tv["ids"]:
        if sid not in tv["accepted"]:
            reached, total = tv["progress"][sid]
            evs = groups.get(sid, [])
            first_bad = evs[reached] if reached < len(evs) else None
            variant = variant_label(scen[sid - 1]) if sid > n_plain else ""
            key = "%s history=%s%s" % (prop, history_key(hists[sid - 1]), variant)
            run.violation(key, {"behaviour": hists[sid - 1], "scenario": scen[sid - 1],
                                "trace_rejected_at": reached, "first_unmatched_event": first_bad,
                                "events": evs[max(0, reached - 12):reached + 3]})
    run.sample({"trace_event": next((e for e in groups.get(1, []) if e["ev"] == "Write"), None)})
    if prop == "C07":
        # the same line on many threads: each lifetime is a critical section (install = count from zero, calls, verdict
        # under the guard), so no lifetime may see another one's calls
        hr = [{"id": k + 1, "mode": "helper", "threads": th, "rounds": rr, "site": 22, "n": 1, "k_match": 1, "k_nomatch": 0}
              for k, (th, rr) in enumerate([(8, 3000), (16, 1500)] if tier == "quick" else [(8, 40000), (16, 20000), (2, 50000)])]
        # ... and the earliest call: another thread calls the function the instant its entry has been flushed
        for n_, site_ in ((3, 21), (1, 20), (2, 19)):
            hr.append({"id": len(hr) + 1, "mode": "early", "rounds": 300 if tier == "quick" else 5000, "n": n_, "site": site_, "threads": 2})
        hg, _, _ = vlib.run_harness("times", hr, "times_C07", timeout=3000)
        tvh = tlc.validate_traces("Trace_Times", "Trace_Times", [(r["id"], hg.get(r["id"], [])) for r in hr], WORK, "trace_times_C07", timeout=3000)
        run.traces += len(tvh["accepted"])
        run.states += tvh["states"]
        run.transitions += tvh["transitions"]
        run.extra["shared_line_threads"] = {"runs": len(hr), "accepted": len(tvh["accepted"])}
        for r in hr:
            run.note_case("%s threads=%s lifetimes=%s" % (r["mode"], r["threads"], r["rounds"]))
            if r["id"] not in tvh["accepted"]:
                evs = hg.get(r["id"], [])
                what = ("shared line on %s threads: a lifetime's verdict saw another lifetime's calls" % r["threads"]) if r["mode"] == "helper" else \
                       ("a call made by another thread the instant the entry was flushed was not counted from zero (times: %s)" % r["n"])
                run.violation("C07 " + what, {"round": r, "events": [e for e in evs if e["ev"] in ("Helper", "Early", "ChildExit")]})
    if prop in ("C17", "C12", "C02"):
        run.sim_part("platform variants", lambda: platform_part(run, prop, tier))
    if prop in ("C02", "C03", "C12"):
        placement_part(run, prop, tier)
    if prop == "C02":
        # "any number of functions, any order, any mix": lifetimes that hold dozens to hundreds of installations at once (every
        # 5th of 60 lifetimes in one process: 33-300 installations over four functions, mixed kinds), restored byte for byte
        cs2 = [{"id": 1, "mode": "cycles", "cycles": 60 if tier == "quick" else 400, "full": 0, "nf": 4, "pool": "rust", "big_every": 5}]
        cg2, _, _ = vlib.run_harness("lifecycle", cs2, "cycles_C02", timeout=3000)
        cfgc2 = tlc.make_cfg("Trace_Api", {"Props": '{"C02", "ALL"}'}, "Trace_Api_C02c")
        tvc2 = tlc.validate_traces("Trace_Api", cfgc2, [(1, cg2.get(1, []))], WORK, "trace_cycles_C02", timeout=3000)
        run.traces += len(tvc2["accepted"])
        run.note_case("big lifetimes %d" % cs2[0]["cycles"])
        if 1 not in tvc2["accepted"]:
            evs2 = cg2.get(1, [])
            reached, total = tvc2["progress"][1]
            fe = evs2[reached] if reached < len(evs2) else None
            run.violation("C02 a lifetime holding many installations was not restored byte for byte (installs=%s)" % (fe or {}).get("installs"),
                          {"first_unmatched_event": fe})
    if prop == "C12":
        # many cycles in one process
        ncyc = 20000 if tier == "quick" else 100000      # > 32 768 installations in one process even in the quick tier
        cs = [{"id": 1, "mode": "cycles", "cycles": ncyc, "full": 150, "nf": 4, "pool": "rust", "big_every": 997}]
        cg, co, _ = vlib.run_harness("lifecycle", cs, "cycles_C12", timeout=3000)
        cfgc = tlc.make_cfg("Trace_Api", {"Props": '{"C12", "ALL"}'}, "Trace_Api_C12c")
        tvc = tlc.validate_traces("Trace_Api", cfgc, [(1, cg.get(1, []))], WORK, "trace_cycles", timeout=3000)
        run.traces += len(tvc["accepted"])
        run.states += tvc["states"]
        run.transitions += tvc["transitions"]
        evs = cg.get(1, [])
        run.extra["cycles"] = {"cycles": ncyc, "events": len(evs), "accepted": 1 in tvc["accepted"]}
        run.note_case("cycles %d" % ncyc)
        if 1 not in tvc["accepted"]:
            reached, total = tvc["progress"][1]
            fe = evs[reached] if reached < len(evs) else None
            run.violation("C12 cycles first_unmatched=%s" % (fe["ev"] if fe else None),
                          {"trace_rejected_at": reached, "first_unmatched_event": fe, "events": evs[max(0, reached - 8):reached + 2]})
    return run.finish()


# =============================================================== placement family (C01, C10 stub, C13 bytes)

def placement_scenarios(tier):
    rnd = vlib.rnd("placement")
    M31 = 1 << 31
    scen = []

    def add(**kw):
        kw["id"] = len(scen) + 1
        scen.append(kw)

    bases = [0x10000000, 0x1000, 0x10000, 0x4000000, 0x200000000, 0x7e0000000000, 0x100000000000]
    offs = [0, 1, 2048, 4084, 4090, 4091, 4092, 4093, 4094, 4095]
    deltas = [1, -1, 2, 32767, -32767, 32768, -32768, 100, -4000]
    disps = [M31 + k for k in range(-6, 7)] + [-M31 + k for k in range(-6, 7)] + \
            [4096, -8192, 1 << 20, -(1 << 20), 1 << 33, -(1 << 33), 1 << 40, 1 << 46]
    # boundary lattice of the rel32 test, at a comfortable base, every delta sign
    for d in disps:
        add(flavour="raw", func_page=0x200000000, off=64, tramp_delta_pages=1, disp=d)
    for d in [M31 - 1, M31, -M31, -M31 - 1]:
        add(flavour="unchecked", func_page=0x200000000, off=128, tramp_delta_pages=-1, disp=d)
    # the same boundary with everything below 4 GiB (absolute addresses that fit 32 bits, some with bit 31 set)
    for d in [M31 - 4096, M31, M31 + 4096, (1 << 31) + (1 << 30), 1 << 30, (3 << 30) - 8192]:
        add(flavour="raw", func_page=0x10000000, off=64, tramp_delta_pages=1, disp=d)
        add(flavour="unchecked", func_page=0x4000000, off=16, tramp_delta_pages=-1, disp=d)
    # page offsets (straddling entries) x a few deltas
    for off in offs:
        for dl in ([1, -32767] if tier == "quick" else deltas):
            add(flavour="raw", func_page=0x10000000, off=off, tramp_delta_pages=dl, disp=1 << 20)
    # trampoline positions across the window, including both extremes
    for dl in deltas:
        for off in (0, 64):
            add(flavour="raw", func_page=0x10000000, off=off, tramp_delta_pages=dl, disp=-(1 << 20))
    # low and high function addresses (window clipped at zero / near the top of user space)
    for b in bases:
        for dl in (1, 5, -1):
            add(flavour="raw", func_page=b, off=32, tramp_delta_pages=dl, disp=1 << 20)
            add(flavour="bool", boolv=rnd.choice([0, 1]), func_page=b, off=48, tramp_delta_pages=dl, disp=0)
    # kernel-chosen trampoline (no dictated page)
    for b in bases[:4]:
        add(flavour="raw", func_page=b, off=16, tramp_delta_pages=3, disp=1 << 21, dictate=False)
    # Rust-level fakes (closure, fake!, func!): arena positioned around the harness text
    for fl in ("closure", "fake", "func"):
        for d in (M31, -M31, M31 - 8192, -M31 + 8192, 1 << 24, -(1 << 24), 1 << 36):
            add(flavour=fl, off=rnd.choice([0, 16, 4091, 2048]), tramp_delta_pages=rnd.choice([1, -1, 7]), disp=d)
    # forced boolean, both values, straddling and not
    for v in (0, 1):
        for off in (0, 4090, 4093):
            add(flavour="bool", boolv=v, func_page=0x10000000, off=off, tramp_delta_pages=2, disp=0)
    # a page of the target never becomes writable: the first one, or only the second one of a straddling entry
    for fl in ("raw", "bool", "unchecked"):
        for off, deny in ((64, "first"), (4092, "second"), (4093, "second"), (4094, "second"), (4095, "second"), (4093, "first"), (4090, "first")):
            add(flavour=fl, boolv=1, func_page=0x10000000, off=off, tramp_delta_pages=3, disp=1 << 20, deny=deny)
    # the target's 6 bytes are the last readable bytes of their mapping (generated code in front of a guard page)
    for v in (0, 1):
        add(flavour="bool", boolv=v, func_page=0x10000000, off=4090, tramp_delta_pages=2, disp=0, last=True)
    for fl in ("raw", "unchecked"):
        add(flavour=fl, func_page=0x10000000, off=4090, tramp_delta_pages=-2, disp=1 << 20, last=True)
        add(flavour=fl, func_page=0x10000000, off=4090, tramp_delta_pages=5, disp=M31 + 3, last=True)
    # the next function packed right behind the 6-byte target (no padding to a 16-byte boundary)
    for v in (0, 1):
        for off in (0, 64, 4084, 4090):
            add(flavour="bool", boolv=v, func_page=0x10000000, off=off, tramp_delta_pages=2, disp=0, packed=True)
    for fl in ("raw", "unchecked"):
        for off in (32, 4089):
            add(flavour=fl, func_page=0x10000000, off=off, tramp_delta_pages=-1, disp=1 << 20, packed=True)
    # ... after an ordinary function of the program was forced to the same value in an earlier injector lifetime of the process
    for v in (0, 1):
        for off in (0, 64, 4090):
            add(flavour="bool", boolv=v, func_page=0x10000000, off=off, tramp_delta_pages=2, disp=0, packed=True, prime_bool=True)
            add(flavour="bool", boolv=v, func_page=0x7e0000000000, off=off, tramp_delta_pages=-3, disp=0, packed=(off != 4090), prime_bool=True)
    n_rand = 60 if tier == "quick" else 3000
    for _ in range(n_rand):
        fl = rnd.choice(["raw", "raw", "unchecked", "bool"])
        d = rnd.choice([M31, -M31, 0]) + rnd.randrange(-(1 << 12), 1 << 12) if rnd.random() < 0.5 else rnd.randrange(-(1 << 45), 1 << 45)
        if abs(d) < 8192:
            d += 16384
        add(flavour=fl, boolv=rnd.choice([0, 1]), func_page=rnd.choice(bases) + 4096 * rnd.randrange(0, 64),
            off=rnd.choice(offs + [rnd.randrange(0, 4096)]), tramp_delta_pages=rnd.choice(deltas + [rnd.randrange(-32768, 32769)]),
            disp=d)
    return scen


def multi_scenarios():
    """several targets per injector and several injector lifetimes per process, kernel-placed trampolines: targets packed in
    one arena (page-aligned entries, entries in neighbouring pages, both orders), and consecutive lifetimes whose targets
    lie far apart (more than the +/-128 MiB window) and close together"""
    scen = []
    G = 1 << 30
    for base in (0x10000000, 0x200000000, 0x7e0000000000):
        for offs in ([0x100, 0x1000, 0x200], [0, 0x1000, 0x2000], [0xff0, 0x1000, 0x1ff8], [0x1000, 0x100, 0x2000, 0x200],
                     [0x2000, 0x1000, 0], [0x40]):
            scen.append({"mode": "multi", "lives": [{"base": base, "pages": 3, "offs": offs}]})
    # lifetimes that move around the address space: far, back, near
    for a, b in ((0x10000000, 0x10000000 + G), (0x200000000, 0x200000000 - G), (0x10000000, 0x7e0000000000), (0x7e0000000000, 0x10000000),
                 (0x10000000, 0x10000000 + (200 << 20)), (0x200000000, 0x200000000 + (129 << 20))):
        scen.append({"mode": "multi", "lives": [{"base": a, "pages": 2, "offs": [0x100, 0x1000]}, {"base": b, "pages": 2, "offs": [0x200]},
                                                {"base": a, "pages": 2, "offs": [0x1000, 0x300]}, {"base": b + 0x4000, "pages": 1, "offs": [0]}]})
    # the rest of the process takes over the addresses of released trampolines (hinted mmap, code kept there); the same
    # targets are then faked again and again
    for base in (0x10000000, 0x200000000):
        scen.append({"mode": "multi", "foreign_after_drop": True,
                     "lives": [{"base": base, "pages": 2, "offs": [0x100, 0x1000]}, {"base": base, "pages": 2, "offs": [0x100]},
                               {"base": base, "pages": 2, "offs": [0x1000, 0x100, 0x200]}, {"base": base + (64 << 20), "pages": 1, "offs": [0x80]},
                               {"base": base, "pages": 2, "offs": [0x100, 0x1000]}]})
    return scen


def prologue_scenarios():
    """targets with unusual but legitimate first instructions, for the checks that speak about restoring /
    not touching / releasing (C02, C03, C12) and for C01"""
    scen = []
    for pro in ("plain", "endbr64", "nop", "thunk_e9", "thunk_eb", "selfmod"):
        for off in (64, 4090, 2048, 65, 4093):          # even and odd entry addresses, inside a page and straddling
            if pro == "selfmod" and off == 4090:
                off = 1024
            for fl, dl in (("raw", 1), ("bool", -1), ("unchecked", 2), ("func", 1)):
                sc = dict(flavour=fl, func_page=0x10000000, off=off, tramp_delta_pages=dl, disp=1 << 20, prologue=pro, boolv=1)
                if fl == "func":
                    sc.pop("func_page")
                    sc["disp"] = 1 << 24
                scen.append(sc)
    return scen


def placement_part(run, prop, tier):
    """a small placement run (arena targets, prologue family) validated under `prop`"""
    scen = prologue_scenarios() + multi_scenarios()
    if prop == "C12":
        # every mapping the allocator creates while searching -- accepted or rejected -- is accounted for
        scen += [dict(sc) for sc in alloc_scenarios(tier)]
    for k, sc in enumerate(scen, 1):
        sc["id"] = k
    groups, order, _ = vlib.run_harness("placement", scen, "placement_part_" + prop, timeout=3000)
    cfgp = tlc.make_cfg("Trace_Patch", {"Props": '{"%s", "ALL"}' % prop}, "Trace_Patch_part_" + prop)
    live = [sc for sc in scen if not any(e["ev"] == "Note" and e.get("what") == "skipped" for e in groups.get(sc["id"], []))]
    tv = tlc.validate_traces("Trace_Patch", cfgp, [(sc["id"], groups.get(sc["id"], [])) for sc in live], WORK, "trace_part_" + prop, timeout=3000)
    run.traces += len(tv["accepted"])
    run.states += tv["states"]
    run.transitions += tv["transitions"]
    byid = {sc["id"]: sc for sc in scen}
    for sid in tv["ids"]:
        run.note_case("prologue %s" % json.dumps({k: byid[sid][k] for k in byid[sid] if k != "id"}, sort_keys=True))
        if sid not in tv["accepted"]:
            evs = groups.get(sid, [])
            reached, total = tv["progress"][sid]
            sc = byid[sid]
            run.violation(placement_key(prop, sc, evs) if sc.get("mode") == "multi" else
                          "%s arena prologue=%s flavour=%s page_off=%s free=%s" % (prop, sc.get("prologue"), sc.get("flavour"), sc.get("off"), sc.get("free_deltas")),
                          {"scenario": sc, "trace_rejected_at": reached, "first_unmatched_event": evs[reached] if reached < len(evs) else None,
                           "events": [e for e in evs if e["ev"] in ("Place", "Installed", "Called", "Dropped", "ChildExit", "Neighbour", "Write")]})
    run.extra["prologue_placements"] = {"executed": len(live), "accepted": len(tv["accepted"])}


def placement_key(prop, sc, evs):
    if sc.get("mode") == "multi":
        return "%s several targets/lifetimes, kernel-placed: %s" % (prop, json.dumps([[hex(l["base"]), [hex(o) for o in l["offs"]]] for l in sc["lives"]]))
    off = sc.get("off", 0)
    straddle = off + 5 > 4096
    inst = next((e for e in evs if e["ev"] == "Installed"), None)
    crashed = any(e["ev"] == "ChildExit" and e["signal"] != 0 for e in evs)
    if crashed and inst is None and sc.get("last"):
        return "%s install-crash target=last-bytes-of-its-mapping flavour=%s" % (prop, sc.get("flavour"))
    if crashed and inst is None:
        return "%s install-crash page_off=%s straddle=%s" % (prop, off if straddle else "<4092", straddle)
    return "%s flavour=%s page_off=%s delta=%s disp=%s" % (prop, sc.get("flavour"), off, sc.get("tramp_delta_pages"), sc.get("disp"))


def placement_check(prop, tier):
    run = Run(prop, tier)
    run.rule = ("placements = lattice over (function page, offset in page incl. page-straddling entries, dictated trampoline "
                "page across the +/-128 MiB window, fake displacement around +/-2^31 and far) x flavours + seeded random; each is a "
                "real installation in a child process (arena stubs, interposed mmap policy); TLC executes the recorded entry/"
                "trampoline bytes on X64.tla and compares with the CPU's answer; non-trivial = not skipped for occupancy")
    run.assumptions = ["X64.tla transcribes the ~12 instruction forms involved (Intel SDM)", "MAP_FIXED_NOREPLACE honoured by the kernel"]
    # design level: scaled geometry + encoder arithmetic
    r = tlc.check("MC_Geom", "MC_Geom_q" if tier == "quick" else "MC_Geom_t", workers=TLC_WORKERS, timeout=3000)
    run.add_model(r)
    if r["violation"]:
        run.design_violation(r)
    if prop == "C01":
        # the encoder's arithmetic for ALL from < 2^47, to < 2^63 (unbounded integers)
        run.add_apalache("Apa_Encoder", "X64Reaches")
    vlib.build_harness()
    scen = placement_scenarios(tier)
    for sc in prologue_scenarios():
        sc["id"] = len(scen) + 1
        scen.append(sc)
    if prop in ("C01", "C13"):
        for sc in multi_scenarios():
            sc["id"] = len(scen) + 1
            scen.append(sc)
    groups, order, _ = vlib.run_harness("placement", scen, "placement_" + prop, timeout=3000)
    cfgp = tlc.make_cfg("Trace_Patch", {"Props": '{"%s", "ALL"}' % prop}, "Trace_Patch_" + prop)
    live = []
    for sc in scen:
        evs = groups.get(sc["id"], [])
        if any(e["ev"] == "Note" and e.get("what") == "skipped" for e in evs):
            run.evaluations += 1
            continue
        live.append(sc)
        run.note_case(json.dumps({k: sc[k] for k in sc if k != "id"}, sort_keys=True))
    tv = tlc.validate_traces("Trace_Patch", cfgp, [(sc["id"], groups.get(sc["id"], [])) for sc in live], WORK,
                             "trace_" + prop, timeout=3000)
    run.traces += len(tv["accepted"])
    run.states += tv["states"]
    run.transitions += tv["transitions"]
    unknown = sum(1 for l in tv["raw"]["prints"] if l.startswith('<<"UNKNOWN"'))
    run.extra["placements"] = {"generated": len(scen), "executed": len(live), "accepted": len(tv["accepted"]),
                               "unknown_instruction_bytes": unknown}
    byid = {sc["id"]: sc for sc in scen}
    for sid in tv["ids"]:
        if sid not in tv["accepted"]:
            evs = groups.get(sid, [])
            reached, total = tv["progress"][sid]
            run.violation(placement_key(prop, byid[sid], evs),
                          {"scenario": byid[sid], "trace_rejected_at": reached,
                           "first_unmatched_event": evs[reached] if reached < len(evs) else None,
                           "events": [e for e in evs if e["ev"] in ("Place", "Installed", "Called", "Dropped", "ChildExit", "Neighbour")]})
    for sc in live[:3]:
        run.sample({"placement": sc, "installed": next((e for e in groups.get(sc["id"], []) if e["ev"] == "Installed"), None)})
    if prop == "C01":
        # "with the function's first bytes spanning two memory pages ... fails loudly": the OS-facing layer of the platforms this
        # host is not, against the page-protection rules of each system (Trace_Flush: bytes change only in pages the system lets
        # the thread write at that moment; on macOS the thread is back in execute mode at every return)
        run.sim_part("platform variants", lambda: platform_part(run, prop, tier))
    if prop == "C01":
        # "from any call site or thread": the instant a function's entry has been flushed another thread calls it
        er = [{"id": 1, "mode": "early", "rounds": 300 if tier == "quick" else 5000, "n": 2, "site": 16, "threads": 2}]
        eg, _, _ = vlib.run_harness("times", er, "times_C01", timeout=3000)
        tve = tlc.validate_traces("Trace_Times", "Trace_Times", [(1, eg.get(1, []))], WORK, "trace_times_C01", timeout=600)
        run.traces += len(tve["accepted"])
        run.note_case("earliest call from another thread x %d lifetimes" % er[0]["rounds"])
        if 1 not in tve["accepted"]:
            run.violation("C01 a call made by another thread the instant the entry was flushed did not reach the fake",
                          {"events": [e for e in eg.get(1, []) if e["ev"] in ("Early", "ChildExit")]})
    if prop == "C01":
        # "a call arrives at the replacement" when the function already carries other replacements: every behaviour of the
        # three-installation generator (A, B, A patterns over two fakes and a forced boolean, one or two functions), replayed
        # on real functions; after every installation every function is called and must answer as the specification says
        h3, g3 = gen_behaviours("MC_LifecycleApi_q3", timeout=3000)
        h3f, g3f = gen_behaviours("MC_LifecycleApi_q3f", timeout=3000)
        h3 = h3 + [h for h in h3f for _ in (0, 1)]
        run.states += g3["distinct"] + g3f["distinct"]
        run.transitions += g3["generated"] + g3f["generated"]
        lscen = [hist_to_scenario(h, i, "rust", 2, diff=False) for i, h in enumerate(h3, 1)]
        lg, lo, _ = vlib.run_harness("lifecycle", lscen, "lifecycle_C01")
        nre = 0
        for i, h in enumerate(h3, 1):
            if i in vlib.NOT_RUN:
                continue
            run.note_case("refake " + history_key(h))
            bad = [b for b in compare_replay(h, lg.get(i, []), 2) if b[0] in ("C01", "CRASH") or (b[0] == "C02" and "while installed" in b[1])]
            if bad:
                run.violation("C01 history=%s" % history_key(h), {"behaviour": h, "scenario": lscen[i - 1], "mismatch": bad})
            else:
                nre += 1
                run.traces += 1
        run.extra["refake_histories"] = {"behaviours": len(h3), "agree": nre}
    if prop == "C01":
        # simulated addresses (patch_amd64.rs against a simulated memory): entry displacements beyond +/-2 GiB (the
        # 12-byte entry patch of the Windows-style window) and fakes in the upper half of the 64-bit range
        rnd = vlib.rnd("x64sim")
        M31 = 1 << 31
        cases = []
        for src in (0x400000, 0x7f0000001230, 0x10000, 0x7ffffffff000 - 0x5000):
            for dt in [M31 + k for k in range(-6, 7)] + [-M31 + k for k in range(-6, 7)] + [4096, -4096, 1 << 33, -(1 << 33), 1 << 40, (1 << 46)]:
                tramp = src + dt
                if tramp < 4096 or tramp >= (1 << 47):
                    continue
                for fake in (tramp + 5 + M31, tramp + 5 + M31 - 1, tramp + 5 - M31, tramp + 5 - M31 - 1, 0xFFFFFFFFFFFFF000, 0x8000000000000000,
                             0x7FFFFFFFFFFFFFFF, rnd.getrandbits(64), 0x1000):
                    fake &= (1 << 64) - 1
                    if abs(fake - tramp) < 64 or abs(fake - src) < 64:
                        continue
                    cases.append({"isa": "x64-sim", "kind": "jump", "src": src, "tramp": tramp, "fake": fake, "v": 0})
            for v in (0, 1):
                cases.append({"isa": "x64-sim", "kind": "bool", "src": src, "tramp": src + (1 << 20), "fake": 0, "v": v})
        if tier == "quick":
            cases = cases[::3]
        for c in cases:
            run.note_case("x64-sim %x %x %x" % (c["src"], c["tramp"], c["fake"]))

        def key(fe):
            if fe is None:
                return "C01 x64-sim harness-died"
            d = int.from_bytes(bytes(fe["tramp"]), "little") - int.from_bytes(bytes(fe["src"]), "little")
            return "C01 x64-sim outcome=%s entry_disp=%+#x fake=%#x" % (fe["outcome"], d, int.from_bytes(bytes(fe["fake"]), "little"))

        def x64sim():
            g, nev, unk = sim_validate(run, "C01", cases, 200, key)
            run.extra["x64_sim_cases"] = {"cases": len(cases), "validated": nev, "unknown": unk}
        run.sim_part("x86-64 simulated addresses", x64sim)
    return run.finish()


# =============================================================== allocator (C11)

def alloc_scenarios(tier):
    rnd = vlib.rnd("alloc")
    scen = []
    bases = [0x10000000, 0x1000, 0x3000, 0x7fff000, 0x8000000, 0x8001000, 0x7e0000000000]
    offs = [0, 64, 4090]
    frees = [[], [-32768], [32768], [-32767], [32767], [-1], [1], [-32768, 32768], [5, -5], [-32769], [32769], None]
    occs = [dict(occupied=0), dict(occupied=2, elsewhere_delta=40000, occ_budget=3),
            dict(occupied=2, elsewhere_delta=77, occ_budget=3), dict(occupied=1, occ_budget=2),
            dict(occupied=2, elsewhere_delta=-32768, occ_budget=1), dict(occupied=2, elsewhere_delta=32768, occ_budget=1),
            # the kernel's fallback lies a multiple of 4 GiB (+ a little) away: |d| mod 2^32 is small, d is not
            dict(occupied=2, elsewhere_delta=(1 << 20) + 16, occ_budget=1), dict(occupied=2, elsewhere_delta=(2 << 20) - 5, occ_budget=2),
            dict(occupied=2, elsewhere_delta=(1 << 19) + 3, occ_budget=1)]
    allc = []
    for b in bases:
        for off in offs:
            for fr in frees:
                for oc in occs:
                    sc = dict(func_page=b, off=off, tramp_delta_pages=0, disp=0)
                    if fr is None:
                        if oc["occupied"] != 0:
                            continue
                        sc["dictate"] = False
                    else:
                        sc["free_deltas"] = fr
                        sc.update(oc)
                    allc.append(sc)
    if tier == "quick":
        rnd.shuffle(allc)
        keep = allc[:170]
        # always keep the edge layouts
        for sc in allc[170:]:
            if sc.get("free_deltas") in ([-32768], [32768], []) and sc["func_page"] in (0x10000000, 0x1000) and sc.get("occupied") == 0:
                keep.append(sc)
            elif sc.get("elsewhere_delta", 0) >= (1 << 19) and sc.get("free_deltas") in ([], [32769]) and sc["off"] == 0:
                keep.append(sc)
        allc = keep
    for k, sc in enumerate(allc, 1):
        sc["id"] = k
        if k % 5 == 0:
            sc["flavour"] = "raw"
            sc["fake_abs"] = 0x300000000 + 4096 * (k % 97)
        else:
            sc["flavour"] = "bool"
            sc["boolv"] = k % 2
        scen.append(sc)
    return scen


def alloc_check(prop, tier):
    run = Run(prop, tier)
    run.rule = ("layouts = (target page incl. below 128 MiB, offset in page) x (free set: empty, single page at either extreme / "
                "next to the extremes / adjacent / just outside, pairs, everything free) x (kernel answer to an occupied hint: fail, "
                "a page outside the window, a page inside, far away); enforced on the real allocator through the interposed mmap; "
                "Mmap/Munmap/Installed events validated by TLC (Trace_Patch, Props={C11}); non-trivial = executed (not skipped)")
    run.assumptions = ["the interposed mmap policy stands in for the kernel's placement decisions", "x86-64 only natively; the arm64 encoder edge is covered by the simulated run of C15"]
    for cfg in (["MC_Alloc_q", "MC_Alloc_w", "MC_Alloc_wx"] if tier == "quick" else ["MC_Alloc_q", "MC_Alloc_w", "MC_Alloc_wx", "MC_Alloc_t"]):
        r = tlc.check("MC_Alloc", cfg, workers=TLC_WORKERS, timeout=3000)
        run.add_model(r, required_actions=("Try", "Exhausted"))
        if r["violation"]:
            run.design_violation(r)
    run.add_apalache("Apa_Encoder", "A64AcceptedIsEncodable")
    vlib.build_harness()
    scen = alloc_scenarios(tier)
    for sc in multi_scenarios():
        sc["id"] = len(scen) + 1
        scen.append(sc)
    groups, order, _ = vlib.run_harness("placement", scen, "alloc_" + prop, timeout=3000)
    cfgp = tlc.make_cfg("Trace_Patch", {"Props": '{"C11", "ALL"}'}, "Trace_Patch_" + prop)
    live = []
    outcomes = {"ok": 0, "panic": 0}
    for sc in scen:
        evs = groups.get(sc["id"], [])
        if any(e["ev"] == "Note" and e.get("what") == "skipped" for e in evs):
            run.evaluations += 1
            continue
        live.append(sc)
        run.note_case(json.dumps({k: sc[k] for k in sc if k != "id"}, sort_keys=True))
        inst = next((e for e in evs if e["ev"] == "Installed"), None)
        if inst:
            outcomes[inst["outcome"]] = outcomes.get(inst["outcome"], 0) + 1
    if outcomes["ok"] == 0 or outcomes["panic"] == 0:
        raise ToolError("vacuity guard: allocator layouts produced outcomes %s" % outcomes)
    tv = tlc.validate_traces("Trace_Patch", cfgp, [(sc["id"], groups.get(sc["id"], [])) for sc in live], WORK,
                             "trace_" + prop, timeout=3000)
    run.traces += len(tv["accepted"])
    run.states += tv["states"]
    run.transitions += tv["transitions"]
    run.extra["layouts"] = {"generated": len(scen), "executed": len(live), "accepted": len(tv["accepted"]), "outcomes": outcomes}
    byid = {sc["id"]: sc for sc in scen}
    for sid in tv["ids"]:
        if sid not in tv["accepted"]:
            evs = groups.get(sid, [])
            reached, total = tv["progress"][sid]
            sc = byid[sid]
            key = placement_key("C11", sc, evs) if sc.get("mode") == "multi" else "C11 isa=x86_64 free=%s occupied=%s else=%s page_off=%s base=%#x" % (
                sc.get("free_deltas"), sc.get("occupied"), sc.get("elsewhere_delta"), sc["off"], sc["func_page"])
            run.violation(key, {"scenario": sc, "trace_rejected_at": reached,
                                "first_unmatched_event": evs[reached] if reached < len(evs) else None,
                                "events": [e for e in evs if e["ev"] in ("Place", "Mmap", "Munmap", "Installed", "Called", "ChildExit")][-30:]})
    for sc in live[:3]:
        run.sample({"layout": sc, "mmap_events": [e for e in groups.get(sc["id"], []) if e["ev"] in ("Mmap", "Munmap")][:6]})
    # arm64 half: the allocator is the same Rust code on every architecture (it just ran natively); the
    # branch encoder is architecture-specific (simulated).  Join them: every displacement the real
    # allocator accepted must be encodable by the arm64 entry branch.
    R = 0x8000000
    accepted_d = set()
    for sc in live:
        inst = next((e for e in groups.get(sc["id"], []) if e["ev"] == "Installed"), None)
        if inst and inst["outcome"] == "ok":
            accepted_d.add(int.from_bytes(bytes(inst["tramp"]), "little") - int.from_bytes(bytes(inst["func"]), "little"))
    run.extra["allocator_accepted_extremes"] = {"min": min(accepted_d) if accepted_d else None, "max": max(accepted_d) if accepted_d else None}
    src0 = 0x0000007f80000000
    cases = []
    ds = sorted(set([-R, -R + 4096, R - 4096, R, 4096, -4096] + [d for d in accepted_d if abs(d) >= R - 8192 and d % 4 == 0]))
    for d in ds:
        cases.append({"isa": "a64-linux", "kind": "jump", "src": src0, "tramp": src0 + d, "fake": 0x1234567890, "v": 0, "d": d})
    scen2 = [{"id": 1, "cases": cases}]

    def arm64_join():
        g2, o2, _ = vlib.run_harness("sim", scen2, "sim_C11", timeout=600)
        evs = g2.get(1, [])
        per = []
        for c, e in zip(cases, evs):
            e = dict(e)
            e["alloc_accepts"] = (abs(c["d"]) < R - 4096) or (c["d"] in accepted_d)
            per.append((len(per) + 1, [e]))
        cfgs = tlc.make_cfg("Trace_Sim", {"Props": '{"C11", "ALL"}'}, "Trace_Sim_C11")
        tv2 = tlc.validate_traces("Trace_Sim", cfgs, per, WORK, "trace_sim_C11", timeout=600)
        run.traces += len(tv2["accepted"])
        run.states += tv2["states"]
        run.transitions += tv2["transitions"]
        for sid, ev1 in per:
            if sid not in tv2["accepted"]:
                c = cases[sid - 1]
                run.violation("C11 isa=arm64-linux d=%+#x accepted-by-allocator refused-by-encoder leaked=1" % c["d"],
                              {"case": c, "event": {k: ev1[0][k] for k in ("outcome", "msg", "alloc_accepts", "entry")}})
    run.sim_part("arm64 encoder join", arm64_join)
    # the native runs once more, step by step against MC_Alloc's Try / Exhausted (events renamed, nothing inferred)
    per = []
    for sc in live:
        if sc.get("mode") == "multi":
            continue
        evs = groups.get(sc["id"], [])
        place = next((e for e in evs if e["ev"] == "Place"), None)
        inst = next((e for e in evs if e["ev"] == "Installed"), None)
        if not place or not inst or (inst["outcome"] == "panic" and inst["cls"] != "alloc-exhausted"):
            continue
        out = [{"ev": "AllocBegin", "src": place["func"], "r": [0, 0, 0, 8, 0, 0, 0, 0], "accept": "a64safe", "kernel": "mmap"}]
        ntry = 0
        for e in evs:
            if e is inst:
                break
            if e["ev"] == "Mmap":
                # requests answered "elsewhere" are both logged and counted in quiet_mmap
                ntry += 0 if e.get("how") in ("occ-far", "occ-else") and inst.get("quiet_mmap", 0) else 1
                out.append({"ev": "Try", "hint": e["hint"], "ret": e["ret"], "ok": bool(e["ok"])})
            elif e["ev"] == "Munmap":
                out.append({"ev": "Release", "addr": e["addr"], "ok": e["ret"] == 0})
        if inst["outcome"] == "ok":
            out.append({"ev": "Result", "outcome": "ok", "addr": inst["tramp"], "held": inst["live"], "tries": ntry + inst.get("quiet_mmap", 0)})
        else:
            out.append({"ev": "Result", "outcome": "panic", "addr": [0] * 8, "held": inst["live"], "tries": ntry + inst.get("quiet_mmap", 0)})
        per.append((sc["id"], out))
    tv3 = tlc.validate_traces("Trace_Alloc", "Trace_Alloc", per, WORK, "trace_alloc_native", timeout=3000)
    run.traces += len(tv3["accepted"])
    run.states += tv3["states"]
    run.transitions += tv3["transitions"]
    run.extra["native_step_by_step"] = {"scenarios": len(per), "accepted": len(tv3["accepted"])}
    pero = dict(per)
    for sid in tv3["ids"]:
        if sid not in tv3["accepted"]:
            reached, total = tv3["progress"][sid]
            sc = byid[sid]
            run.violation("C11 isa=x86_64 step-by-step free=%s occupied=%s else=%s page_off=%s base=%#x" % (
                sc.get("free_deltas"), sc.get("occupied"), sc.get("elsewhere_delta"), sc["off"], sc["func_page"]),
                {"scenario": sc, "trace_rejected_at": reached, "first_unmatched_event": pero[sid][reached] if reached < len(pero[sid]) else None,
                 "events": pero[sid][max(0, reached - 6):reached + 2]})
    run.sim_part("Windows allocator", lambda: windows_alloc_part(run, tier))
    run.sim_part("macOS / Linux-arm64 allocators joined with their encoders", lambda: platform_alloc_join(run, "C11", ("macos-a64", "macos-x64", "linux-a64"), tier))
    return run.finish()


def platform_part(run, prop, tier):
    """the OS-facing layer on the platforms this host is not: common.rs + emitters compiled for (os, arch) pairs against
    shims of the OS items, driven through the PatchTrait entry points; Trace_Flush under `prop`"""
    # design level: one code modification as each system sees it (one action per OS call), every entry offset of two pages, both
    # patch lengths, entry and trampoline writes -- the page rules and the dirty-set discipline that Trace_Flush then applies
    # to the recorded runs
    r = tlc.check("MC_Platform", "MC_Platform_q", workers=4, timeout=1200)
    run.add_model(r)
    if r["violation"]:
        run.design_violation(r)
    scen = []
    for variant in ("linux-x64", "linux-a64", "linux-arm", "windows-x64", "windows-a64", "macos-a64", "macos-x64"):
        # 4088: the last word-aligned entry whose 12 bytes (every arm64 / arm patch) reach into the next page by 4 only
        if tier == "quick":
            offs = (64, 4093) if variant.endswith("x64") else (64, 4088)
        else:
            offs = (0, 64, 2048, 4084, 4088, 4090, 4093)
        for off in offs:
            if variant == "linux-arm":
                off &= ~3     # 32-bit ARM on a 64-bit host: A32 entries only (the Thumb path folds the address into 32 bits)
            for installs in (["jump"], ["bool1"], ["jump", "bool0"], ["bool1", "jump", "jump"]):
                for fake in ((0x7f1234567000, 0) if variant.endswith("x64") else (0x7f1234567000,)):
                    # fake = 0: a replacement close to the trampoline (x86-64 short form), taken inside the arena
                    scen.append({"id": len(scen) + 1, "variant": variant, "off": off, "installs": installs, "fake": fake, "near_fake": fake == 0})
            # a kernel that answers like a real one where the shim above is stricter than any kernel: a Unix mmap whose hint is
            # not free answers with another address (here: another arena page), a Windows VirtualAlloc rounds down to the 64 KiB
            # allocation granularity -- so that the layer below is reached whatever pages an allocator chooses to ask for
            if variant != "linux-arm":
                for installs in ((["jump", "bool0"],) if tier == "quick" else (["jump"], ["bool1"], ["jump", "bool0"], ["bool1", "jump", "jump"])):
                    scen.append({"id": len(scen) + 1, "variant": variant, "off": off, "installs": installs, "fake": 0x7f1234567000, "near_fake": False,
                                 "kernel": "near"})
    groups, order, _ = vlib.run_harness("platsim", scen, "platsim_" + prop, timeout=3000)
    cfgp = tlc.make_cfg("Trace_Flush", {"Props": '{"%s", "ALL"}' % prop}, "Trace_Flush_" + prop)
    tv = tlc.validate_traces("Trace_Flush", cfgp, [(sc["id"], groups.get(sc["id"], [])) for sc in scen], WORK, "trace_flush_" + prop, timeout=3000)
    run.traces += len(tv["accepted"])
    run.states += tv["states"]
    run.transitions += tv["transitions"]
    hows = set()
    for sc in scen:
        evs = groups.get(sc["id"], [])
        hows |= set(e["how"] for e in evs if e["ev"] == "PFlush")
        run.note_case("platform %s off=%s installs=%s fake=%s kernel=%s" % (sc["variant"], sc["off"], "+".join(sc["installs"]), "near" if sc["near_fake"] else "far",
                                                                             sc.get("kernel", "exact")))
        if sc["id"] not in tv["accepted"]:
            reached, total = tv["progress"].get(sc["id"], (0, -1))
            fe = evs[reached] if reached < len(evs) else None
            # name what is left unflushed: the entry (arena page 0/1) or a trampoline (pages 2..)
            dirty = set()
            for e in evs[:reached]:
                if e["ev"] == "PWrite":
                    dirty |= set(range(e["off"], e["off"] + e["len"]))
                elif e["ev"] == "PFlush" and e["in_arena"]:
                    dirty -= set(range(e["off"], e["off"] + e["len"]))
            what = "none" if not dirty else ("trampoline" if min(dirty) >= 8192 else "entry")
            run.violation("%s platform=%s at=%s unflushed=%s" % (prop, sc["variant"], (fe or {}).get("ev"), what),
                          {"scenario": sc, "trace_rejected_at": reached, "first_unmatched_event": fe,
                           "unflushed_offsets": sorted(dirty)[:40], "events": evs[max(0, reached - 14):reached + 1]})
    need = {"__clear_cache", "FlushInstructionCache", "sys_icache_invalidate"}
    if not need <= hows:
        raise ToolError("vacuity guard: platform primitives seen: %s" % sorted(hows))
    run.extra["platform_variants"] = {"runs": len(scen), "accepted": len(tv["accepted"]), "primitives": sorted(hows)}


def platform_alloc_join(run, prop, variants, tier):
    """the allocator of another platform (common.rs compiled for it, simulated address space) joined with that platform's
    entry-branch encoder: whatever the allocator returns -- window edges, nothing free, the kernel answering elsewhere or, for
    a request without a hint, far away -- must be reached by the entry the encoder then writes"""
    G = 1 << 30
    scen = []
    for variant in variants:
        rpages = (0x80000000 if variant.startswith("macos") else 0x8000000) // 4096
        for src in ((0x1_0000_4ff8 & ~3, 0x10_0000) if tier == "quick" else (0x1_0000_4000, 0x1_0000_4ff8 & ~3, 0x7f00_1234_5000, 0x10_0000)):
            for fd in ([], [rpages - 1], [rpages], [-rpages], [-rpages - 1], [1], [-1], [rpages - 1, -rpages]):
                for elsewhere, null_answer in ((0, 0), (src + 5 * G, 0), (0, src + 5 * G), (src + 9 * G + 0x3000, src - 6 * G if src > 6 * G else src + 6 * G)):
                    if tier == "quick" and len(fd) == 1 and elsewhere and fd[0] not in (rpages, -rpages - 1):
                        continue
                    scen.append({"id": len(scen) + 1, "mode": "alloc", "variant": variant, "src": src, "free_deltas": fd,
                                 "elsewhere": elsewhere & ~0xfff, "null_answer": null_answer & ~0xfff})
    groups, order, _ = vlib.run_harness("platsim", scen, "platalloc_" + prop, timeout=3000)
    cases, outcomes = [], {"ok": 0, "panic": 0}
    for sc in scen:
        end = next((e for e in groups.get(sc["id"], []) if e["ev"] == "PAllocEnd"), None)
        run.note_case("platform allocator %s src=%#x free=%s elsewhere=%#x null=%#x" % (sc["variant"], sc["src"], sc["free_deltas"], sc["elsewhere"], sc["null_answer"]))
        if end is None:
            run.violation("%s platform allocator %s: no result" % (prop, sc["variant"]), {"scenario": sc})
            continue
        outcomes[end["outcome"]] += 1
        if not end["only_result_held"]:
            run.violation("%s platform=%s allocator left %d mapping(s) behind besides its result (src=%#x free=%s elsewhere=%#x)" % (
                prop, sc["variant"], end["held"], sc["src"], sc["free_deltas"], sc["elsewhere"]), {"scenario": sc, "end": end})
        if end["outcome"] == "ok":
            tramp = int.from_bytes(bytes(end["addr"]), "little")
            isa = {"macos-a64": "a64-macos", "linux-a64": "a64-linux", "windows-a64": "a64-linux"}.get(sc["variant"], "x64-sim")
            cases.append({"isa": isa, "kind": "jump", "src": sc["src"] & ~3 if isa.startswith("a64") else sc["src"], "tramp": tramp,
                          "fake": 0x1234567890, "v": 0, "variant": sc["variant"], "layout": sc})
    if outcomes["ok"] == 0 or outcomes["panic"] == 0:
        raise ToolError("vacuity guard: platform allocator outcomes %s" % outcomes)
    g2, o2, _ = vlib.run_harness("sim", [{"id": 1, "cases": cases}], "sim_platjoin_" + prop, timeout=600)
    per = []
    for cse, e in zip(cases, g2.get(1, [])):
        e = dict(e)
        e["alloc_accepts"] = True
        per.append((len(per) + 1, [e]))
    cfgs = tlc.make_cfg("Trace_Sim", {"Props": '{"%s", "C11", "ALL"}' % prop}, "Trace_Sim_platjoin_" + prop)
    tv2 = tlc.validate_traces("Trace_Sim", cfgs, per, WORK, "trace_sim_platjoin_" + prop, timeout=600)
    run.traces += len(tv2["accepted"])
    run.states += tv2["states"]
    run.transitions += tv2["transitions"]
    for sid, ev1 in per:
        if sid not in tv2["accepted"]:
            cse = cases[sid - 1]
            run.violation("%s platform=%s d=%+#x accepted-by-allocator not-reached-by-encoder" % (prop, cse["variant"], cse["tramp"] - cse["src"]),
                          {"layout": cse["layout"], "event": {k: ev1[0].get(k) for k in ("outcome", "msg", "entry")}})
    run.extra.setdefault("platform_allocator_join", {})[",".join(variants)] = {"layouts": len(scen), "outcomes": outcomes, "encoder_cases": len(cases),
                                                                              "encoder_accepted": len(tv2["accepted"])}


def windows_alloc_part(run, tier):
    """C11 on the Windows allocator: both architecture branches of allocate_jit_memory_windows, compiled on this host from
    the repository's text against a simulated VirtualAlloc/VirtualFree (exact-or-fail at 64 KiB granularity); every run is
    validated step by step against MC_Alloc's Try / Exhausted (Trace_Alloc); accepted placements are then handed to the
    real entry-branch encoders (simulated memory) and executed on the ISA models."""
    rnd = vlib.rnd("winalloc")
    scen = []

    def add(arch, src, **kw):
        scen.append(dict(id=len(scen) + 1, arch=arch, src=src, **kw))
    for arch, RB in (("a64", 0x8000000 // 0x10000), ("x64", 0x80000000 // 0x10000)):
        srcs = [0x7ff6_1234_0000, 0x7ff6_1234_7800, 0x7ff6_1234_fff0, 0x1_4000_1000, 0x40_1000,
                (0x8000000 if arch == "a64" else 0x80000000) - 0x10000 + 0x100, 0x20_0000 + 4]
        edges = [-RB - 1, -RB, -RB + 1, -1, 1, RB - 1, RB, RB + 1]
        for src in srcs:
            add(arch, src, free_blocks=[])
            add(arch, src, all_free=True)
            for e in edges:
                add(arch, src, free_blocks=[e])
            for a, b in ((-RB, RB), (-RB - 1, RB + 1), (RB, RB + 1), (-RB - 1, -RB), (-RB - 1, RB - 1)):
                add(arch, src, free_blocks=[a, b])
            for _ in range(2 if tier == "quick" else 12):
                add(arch, src, free_blocks=sorted(rnd.sample(range(-RB - 3, RB + 4), 3)))
    groups, order, _ = vlib.run_harness("winsim", scen, "winsim_C11", timeout=3000)
    tv = tlc.validate_traces("Trace_Alloc", "Trace_Alloc", [(sc["id"], groups.get(sc["id"], [])) for sc in scen], WORK, "trace_winalloc", timeout=3000)
    run.traces += len(tv["accepted"])
    run.states += tv["states"]
    run.transitions += tv["transitions"]
    outcomes = {"ok": 0, "panic": 0}
    accepted = {"a64": set(), "x64": set()}
    for sc in scen:
        evs = groups.get(sc["id"], [])
        res = next((e for e in evs if e["ev"] == "Result"), None)
        run.note_case("windows %s src=%#x free=%s" % (sc["arch"], sc["src"], "all" if sc.get("all_free") else sc.get("free_blocks")))
        if res:
            outcomes[res["outcome"]] += 1
            if res["outcome"] == "ok":
                accepted[sc["arch"]].add((sc["src"], int.from_bytes(bytes(res["addr"]), "little")))
        if sc["id"] not in tv["accepted"]:
            reached, total = tv["progress"].get(sc["id"], (0, -1))
            run.violation("C11 isa=windows-%s src=%#x free=%s" % (sc["arch"], sc["src"], "all" if sc.get("all_free") else sc.get("free_blocks")),
                          {"scenario": sc, "trace_rejected_at": reached, "first_unmatched_event": evs[reached] if reached < len(evs) else None,
                           "events": evs[max(0, reached - 6):reached + 2]})
    if outcomes["ok"] == 0 or outcomes["panic"] == 0:
        raise ToolError("vacuity guard: Windows allocator outcomes %s" % outcomes)
    # join with the encoders: every (function, accepted block) pair, through the real entry-branch emitters
    cases = []
    for src, tramp in sorted(accepted["a64"]):
        cases.append({"isa": "a64-linux", "kind": "jump", "src": src & ~3, "tramp": tramp, "fake": 0x1234567890, "v": 0, "alloc_accepts": True})
    for src, tramp in sorted(accepted["x64"]):
        cases.append({"isa": "x64-sim", "kind": "jump", "src": src, "tramp": tramp, "fake": 0x7ff600001000, "v": 0, "alloc_accepts": True})
    g2, o2, _ = vlib.run_harness("sim", [{"id": 1, "cases": cases}], "sim_C11w", timeout=600)
    per = []
    for cse, e in zip(cases, g2.get(1, [])):
        e = dict(e)
        e["alloc_accepts"] = True
        per.append((len(per) + 1, [e]))
    cfgs = tlc.make_cfg("Trace_Sim", {"Props": '{"C11", "ALL"}'}, "Trace_Sim_C11w")
    tv2 = tlc.validate_traces("Trace_Sim", cfgs, per, WORK, "trace_sim_C11w", timeout=600)
    run.traces += len(tv2["accepted"])
    run.states += tv2["states"]
    run.transitions += tv2["transitions"]
    for sid, ev1 in per:
        if sid not in tv2["accepted"]:
            cse = cases[sid - 1]
            run.violation("C11 isa=windows-%s d=%+#x accepted-by-allocator not-reached-by-encoder" % ("a64" if cse["isa"] == "a64-linux" else "x64", cse["tramp"] - cse["src"]),
                          {"case": cse, "event": {k: ev1[0].get(k) for k in ("outcome", "msg", "entry")}})
    run.extra["windows_allocator"] = {"layouts": len(scen), "accepted_traces": len(tv["accepted"]), "outcomes": outcomes,
                                      "encoder_join_cases": len(cases), "encoder_join_accepted": len(tv2["accepted"])}


# =============================================================== call budget (C06)

def times_check(prop, tier):
    run = Run(prop, tier)
    run.rule = ("(a) MC_Times: all interleavings of 3 callers x scripts of matching/non-matching calls against N; (b) sequential: every "
                "behaviour of MC_LifecycleApi_c6 (counted fakes, explicit matching / rejected calls, caught and unwinding) replayed on "
                "real fake! fakes; (c) concurrent: k calls over up to 16 threads, CallStart/CallEnd traces linearised by TLC "
                "(Trace_Times); distinct = distinct (N, k_match, k_nomatch, threads) / history keys")
    run.assumptions = ["log order of CallStart/CallEnd respects real time (sequence numbers taken under the event lock)"]
    for cfg in (["MC_Times_q0", "MC_Times_q1", "MC_Times_q"] if tier == "quick" else ["MC_Times_q0", "MC_Times_q1", "MC_Times_q", "MC_Times_t"]):
        r = tlc.check("MC_Times", cfg, workers=TLC_WORKERS, timeout=3000)
        run.add_model(r, required_actions=("FetchAdd", "Reject"))
        if r["violation"]:
            run.design_violation(r)
    # arbitrary N, any number of calls: inductive invariant over unbounded integers
    run.add_apalache("Apa_Counter", "Inv", length=0)
    run.add_apalache("Apa_Counter", "IndInv", length=1, init="IndInit")
    # (b) sequential replay through the lifecycle machinery
    hists, gr = gen_behaviours("MC_LifecycleApi_c6q" if tier == "quick" else "MC_LifecycleApi_c6t", timeout=3000)
    run.states += gr["distinct"]
    run.transitions += gr["generated"]
    # two counted fakes in one injector (two functions or the same one twice), installations interleaved with calls:
    # installing one must not disturb the other's count
    hi, gi = gen_behaviours("MC_LifecycleApi_c6i", timeout=3000)
    run.states += gi["distinct"]
    run.transitions += gi["generated"]
    if tier == "quick":
        hi = [h for k, h in enumerate(hi) if k % 3 == vlib.seed() % 3]
    hists += hi
    run.extra["two_counted_fakes_histories"] = len(hi)
    # a refused or failed installation whose panic the caller catches: the lifetime goes on, every counted fake installed before
    # or after it still gets its verdict at the scope exit
    hists += caught_behaviours(run, tier, "C06")
    vlib.build_harness()
    nf = 2 if any(x.get("f") == "f2" for h in hists for x in h) else 1
    scen = [hist_to_scenario(h, i, "rust", nf, diff=False) for i, h in enumerate(hists, 1)]
    groups, order, _ = vlib.run_harness("lifecycle", scen, "lifecycle_C06")
    for i, h in enumerate(hists, 1):
        key = history_key(h)
        run.note_case(key)
        bad = [b for b in compare_replay(h, groups.get(i, []), nf) if b[0] in ("C06", "CRASH")]
        if bad:
            run.violation("C06 history=%s" % key, {"behaviour": h, "scenario": scen[i - 1], "mismatch": bad})
    cfgp = tlc.make_cfg("Trace_Api", {"Props": '{"C06", "ALL"}'}, "Trace_Api_C06")
    tv = tlc.validate_traces("Trace_Api", cfgp, [(i, groups.get(i, [])) for i in range(1, len(hists) + 1)], WORK, "trace_C06", timeout=3000)
    run.traces += len(tv["accepted"])
    run.states += tv["states"]
    run.transitions += tv["transitions"]
    for sid in tv["ids"]:
        if sid not in tv["accepted"]:
            reached, total = tv["progress"][sid]
            evs = groups.get(sid, [])
            run.violation("C06 history=%s" % history_key(hists[sid - 1]),
                          {"behaviour": hists[sid - 1], "trace_rejected_at": reached,
                           "first_unmatched_event": evs[reached] if reached < len(evs) else None})
    run.sample({"behaviour": hists[len(hists) // 2]})
    # (b') the same accounting when one fake! line serves consecutive lifetimes (the static counter is shared by
    # every installation built by that line): behaviours of the 2-lifetime model with the site reused
    h7, g7 = gen_behaviours("MC_LifecycleApi_c7q" if tier == "quick" else "MC_LifecycleApi_c7t", timeout=3000)
    run.states += g7["distinct"]
    run.transitions += g7["generated"]
    h7 = h7[::2] if tier == "quick" else h7
    # ... and when one line is installed again while an earlier installation of it is still alive (a loop body, a helper
    # called twice): each installation has its own budget, counted from zero
    h7r, g7r = gen_behaviours("MC_LifecycleApi_c7r", timeout=3000)
    run.states += g7r["distinct"]
    run.transitions += g7r["generated"]
    h7 = h7 + (h7r[::2] if tier == "quick" else h7r)
    scen7 = [hist_to_scenario(h, i, "rust", 1, diff=False, reuse_sites=True) for i, h in enumerate(h7, 1)]
    g7ev, _, _ = vlib.run_harness("lifecycle", scen7, "lifecycle_C06r")
    for i, h in enumerate(h7, 1):
        key = "reuse " + history_key(h)
        run.note_case(key)
        bad = [b for b in compare_replay(h, g7ev.get(i, []), 1) if b[0] in ("C06", "CRASH")]
        if bad:
            run.violation("C06 site-reuse history=%s" % history_key(h), {"behaviour": h, "scenario": scen7[i - 1], "mismatch": bad})
        else:
            run.traces += 1
    # (c) concurrent rounds
    rnd = vlib.rnd("times")
    rounds = []
    ns = [0, 1, 2, 7, 64] if tier == "quick" else [0, 1, 2, 3, 7, 16, 64, 1000]
    reps = 3 if tier == "quick" else 40
    for n in ns:
        ks = sorted(set([0, 1, max(0, n - 1), n, n + 1, n + 2] + [rnd.randrange(0, n + 3) for _ in range(2)]))
        for k in ks:
            for rep in range(reps):
                th = rnd.choice([1, 2, 3, 4, 8, 16])
                rounds.append({"id": len(rounds) + 1, "n": n, "k_match": k, "k_nomatch": rnd.choice([0, 0, 1, 3]),
                               "threads": th, "site": len(rounds) % 24})
    # tight-loop bursts: thousands of calls racing on the counter with no logging in between
    for n, extra in ([(2000, 500), (5000, 0), (3000, 3000)] if tier == "quick" else [(2000, 500), (5000, 0), (3000, 3000), (20000, 1), (1, 20000), (50000, 50000)]):
        for rep in range(4 if tier == "quick" else 25):
            rounds.append({"id": len(rounds) + 1, "n": n, "k_match": n + extra, "k_nomatch": rnd.choice([0, 7]), "threads": 16,
                           "site": len(rounds) % 24, "burst": True})
    # lifetimes on many threads built through one shared helper line
    for th, rr in ([(8, 3000), (16, 1500)] if tier == "quick" else [(8, 40000), (16, 20000), (2, 50000)]):
        rounds.append({"id": len(rounds) + 1, "mode": "helper", "threads": th, "rounds": rr, "site": 23, "n": 1, "k_match": 1, "k_nomatch": 0})
    for n_, site_ in ((3, 18), (1, 17)):
        rounds.append({"id": len(rounds) + 1, "mode": "early", "rounds": 300 if tier == "quick" else 5000, "n": n_, "k_match": n_, "k_nomatch": 0, "threads": 2, "site": site_})
    tgroups, torder, _ = vlib.run_harness("times", rounds, "times_C06", timeout=3000)
    tv2 = tlc.validate_traces("Trace_Times", "Trace_Times", [(r["id"], tgroups.get(r["id"], [])) for r in rounds], WORK,
                              "trace_times", timeout=3000)
    run.traces += len(tv2["accepted"])
    run.states += tv2["states"]
    run.transitions += tv2["transitions"]
    run.extra["concurrent_rounds"] = {"rounds": len(rounds), "accepted": len(tv2["accepted"]),
                                      "events": sum(len(tgroups.get(r["id"], [])) for r in rounds), "tlc_states": tv2["states"]}
    byid = {r["id"]: r for r in rounds}
    for r in rounds:
        run.note_case("conc n=%s km=%s kn=%s th=%s" % (r["n"], r["k_match"], r["k_nomatch"], r["threads"]))
    for sid in tv2["ids"]:
        if sid not in tv2["accepted"]:
            reached, total = tv2["progress"][sid]
            evs = tgroups.get(sid, [])
            r = byid[sid]
            run.violation("C06 %s n=%s k_match=%s k_nomatch=%s threads=%s" % (r.get("mode", "concurrent"), r["n"], r["k_match"], r["k_nomatch"], r["threads"]),
                          {"round": r, "trace_rejected_at": reached,
                           "first_unmatched_event": evs[reached] if reached < len(evs) else None, "events": evs[-30:]})
    run.sample({"round": rounds[len(rounds) // 2], "events": tgroups.get(rounds[len(rounds) // 2]["id"], [])[:8]})
    return run.finish()


# =============================================================== lock (C04)

def lock_check(prop, tier):
    run = Run(prop, tier)
    run.rule = ("(a) MC_Lock: all interleavings of 3 threads x {injector, preventer} x {drop, panic}, safety + hand-over liveness; "
                "(b) schedules generated by TLC (MC_LockApi; deterministic ones: at most one waiter) executed in lock-step on real "
                "threads: an action the model blocks must not complete within 20 ms, one it lets through must complete within 10 s, "
                "every observation compared; (c) free-running perturbed threads, event order validated by TLC (Trace_Lock); "
                "(d) single-thread lifecycle traces with the guard's state read at every OS call (Trace_Api, Props={C04})")
    run.assumptions = ["20 ms is enough for a non-blocked new()/prevent() to return (a slow machine can only hide a violation)",
                       "free-running: sequence numbers taken under the harness's event lock"]
    for cfg in (["MC_Lock_q"] if tier == "quick" else ["MC_Lock_q", "MC_Lock_t"]):
        r = tlc.check("MC_Lock", cfg, workers=TLC_WORKERS, timeout=3000)
        run.add_model(r, required_actions=("Acquire", "Unlock", "Restore"))
        if r["violation"]:
            run.design_violation(r)
    # scope exits that fail (a restore is refused, the destructor panics): the guard is released all the same
    r = tlc.check("MC_Lifecycle", "MC_Lifecycle_rf", workers=TLC_WORKERS, timeout=3000)
    run.add_model(r, required_actions=("RestoreFails", "Unlock"))
    if r["violation"]:
        run.design_violation(r)
    # (b) schedules
    rnd = vlib.rnd("lock")
    scheds = []
    for cfg, nth in ((("MC_LockApi_q", 2),) if tier == "quick" else (("MC_LockApi_q", 2), ("MC_LockApi_3", 3))):
        # the 3-thread instance has ~4*10^5 replayable schedules: sample it with TLC's simulator
        sim = {"num": 4000, "depth": 300, "seed": vlib.seed()} if nth == 3 else None
        r = tlc.check("MC_LockApi", cfg, workers=1, timeout=3000, coverage=False, sim=sim)
        if r["violation"]:
            raise ToolError("schedule generator violated: %s" % r["violation"])
        run.states += r["distinct"]
        run.transitions += r["generated"]
        seen = set()
        for h in tlc.parse_replay_lines(r["prints"]):
            k = json.dumps(h, sort_keys=True)
            if k not in seen:
                seen.add(k)
                scheds.append((nth, h))
    rnd.shuffle(scheds)
    limit = 140 if tier == "quick" else 3000
    # keep every schedule in which somebody blocks first, then fill up
    blocking = [x for x in scheds if any(st.get("blocks") for st in x[1])]
    rest = [x for x in scheds if not any(st.get("blocks") for st in x[1])]
    chosen = (blocking + rest)[:limit] if len(blocking) < limit * 0.8 else blocking[:int(limit * 0.8)] + rest[:int(limit * 0.2)]
    scen = [{"id": i, "mode": "lockstep", "threads": nth, "steps": h} for i, (nth, h) in enumerate(chosen, 1)]
    # long holds: the waiter is watched for seconds (thorough: more than a minute) instead of 20 ms
    two = [(nth, h) for nth, h in blocking if nth == 2 and sum(1 for st in h if st.get("blocks")) == 1]
    for ms, (nth, h) in zip(([2600, 2600] if tier == "quick" else [2600, 2600, 11000, 65000]), two):
        scen.append({"id": len(scen) + 1, "mode": "lockstep", "threads": nth, "steps": h, "block_ms": ms})
    vlib.build_harness()
    groups, order, _ = vlib.run_harness("locks", scen, "locks_C04", timeout=3000)
    run.extra["schedules"] = {"generated": len(scheds), "executed": len(scen), "with_blocking": len(blocking)}
    for sc in scen:
        evs = groups.get(sc["id"], [])
        key = " ".join("%s%s%s" % (st["act"][0:3], st["t"], "!" if st.get("blocks") else "") for st in sc["steps"])
        run.note_case(key)
        badstep = next((e for e in evs if e["ev"] == "Step" and not e["ok"]), None)
        crashed = next((e for e in evs if e["ev"] == "ChildExit" and (e["signal"] != 0 or e["code"] != 0)), None)
        nsteps = sum(1 for e in evs if e["ev"] == "Step")
        if badstep or crashed or nsteps < len(sc["steps"]):
            run.violation("C04 schedule=%s at=%s obs=%s" % (key, badstep["i"] if badstep else nsteps, badstep["obs"] if badstep else "crash/hang"),
                          {"schedule": sc, "bad_step": badstep, "child": crashed, "steps_done": nsteps})
        else:
            run.traces += 1
    run.sample({"schedule": scen[0]["steps"]})
    # (c) free-running
    frees = []
    for i, (nth, rounds) in enumerate([(2, 60), (3, 50), (4, 40), (8, 30)] if tier == "quick" else [(2, 400), (3, 300), (4, 300), (6, 200), (8, 200), (8, 400)], 1):
        frees.append({"id": i, "mode": "free", "threads": nth, "rounds": rounds, "perturb_us": 200})
    fgroups, forder, _ = vlib.run_harness("locks", frees, "locksfree_C04", timeout=3000)

    def norm(e):
        if e["ev"] in ("Call", "FreeEnd"):
            r = e["res"]
            e = dict(e)
            e["res"] = ["k", int(r[1:])] if r.startswith("k") and r[1:].isdigit() else (["orig", 0] if r == "orig" else [r, -1])
        return e
    tv = tlc.validate_traces("Trace_Lock", "Trace_Lock", [(f["id"], [norm(e) for e in fgroups.get(f["id"], [])]) for f in frees], WORK,
                             "trace_lock", timeout=3000)
    run.traces += len(tv["accepted"])
    run.states += tv["states"]
    run.transitions += tv["transitions"]
    run.extra["free_running"] = {"runs": len(frees), "events": sum(len(fgroups.get(f["id"], [])) for f in frees), "accepted": len(tv["accepted"])}
    for sid in tv["ids"]:
        if sid not in tv["accepted"]:
            reached, total = tv["progress"][sid]
            evs = fgroups.get(sid, [])
            fe = evs[reached] if reached < len(evs) else None
            run.violation("C04 free-running threads=%s first_unmatched=%s" % (frees[sid - 1]["threads"], fe["ev"] if fe else None),
                          {"run": frees[sid - 1], "trace_rejected_at": reached, "first_unmatched_event": fe,
                           "events": evs[max(0, reached - 10):reached + 2]})
    # (d) the guard is held at every OS-level step of install and drop
    hists, gr = gen_behaviours("MC_LifecycleApi_q", timeout=3000)
    hists = hists[::3]
    # ... also after the caller caught the panic of a refused installation and went on
    hists += caught_behaviours(run, tier, "C04")[::3]
    scen2 = [hist_to_scenario(h, i, "rust", 2, diff=False) for i, h in enumerate(hists, 1)]
    # one thread using both kinds of guard one after the other: preventer, then the injector lifetime(s), then a preventer
    for sc in scen2[::2]:
        sc["lives"] = [{"kind": "prev", "steps": [{"op": "probe"}]}] + sc["lives"] + [{"kind": "prev", "steps": [{"op": "probe"}]}]
    # "when the holder lets go, by scope exit or by unwinding": a scope exit that itself fails -- the page of the one patched
    # function refuses to become writable when it is to be restored, so the injector's destructor panics -- still lets go
    nplain = len(scen2)
    for k in range(nplain):
        sc0 = scen2[k]
        lives = sc0["lives"]
        if len(lives) != 1 or lives[0].get("kind") != "inj":
            continue
        ins = [st for st in lives[0]["steps"] if st.get("op") == "install"]
        if len(ins) != 1 or ins[0]["gate"] != "ok" or ins[0]["fault"] != "none" or any(st.get("op") in ("panic", "call_unwind") for st in lives[0]["steps"]):
            continue
        sc = json.loads(json.dumps(sc0))
        sc["id"] = len(scen2) + 1
        sc["lives"][0]["drop_fault"] = "mprotect"
        scen2.append(sc)
        hists.append(hists[k])
    run.extra["failing_scope_exits"] = len(scen2) - nplain
    g2, o2, _ = vlib.run_harness("lifecycle", scen2, "lifecycle_C04")
    cfgp = tlc.make_cfg("Trace_Api", {"Props": '{"C04", "ALL"}'}, "Trace_Api_C04")
    tv3 = tlc.validate_traces("Trace_Api", cfgp, [(i, g2.get(i, [])) for i in range(1, len(hists) + 1)], WORK, "trace_C04", timeout=3000)
    run.traces += len(tv3["accepted"])
    run.states += tv3["states"]
    run.transitions += tv3["transitions"]
    for sid in tv3["ids"]:
        if sid not in tv3["accepted"]:
            reached, total = tv3["progress"][sid]
            evs = g2.get(sid, [])
            run.violation("C04 guard-not-held history=%s%s" % (history_key(hists[sid - 1]), " [restore fails at scope exit]" if sid > nplain else ""),
                          {"behaviour": hists[sid - 1], "trace_rejected_at": reached,
                           "first_unmatched_event": evs[reached] if reached < len(evs) else None})
    return run.finish()


# =============================================================== simulated architectures (C15, C16)

def _chunks(cases, n):
    return [cases[i:i + n] for i in range(0, len(cases), n)]


def a64_cases(tier):
    rnd = vlib.rnd("a64")
    q = tier == "quick"
    cases = []
    R = 0x8000000

    def add(isa, src, tramp, fake, kind="jump", v=0):
        cases.append({"isa": isa, "kind": kind, "src": src & (2**64 - 1), "tramp": tramp & (2**64 - 1), "fake": fake & (2**64 - 1), "v": v})
    # (a) every 16-bit chunk value of the fake address in every position
    step = 64 if q else 1
    for pos in range(4):
        for val in range(rnd.randrange(step) if step > 1 else 0, 65536, step):
            fake = rnd.getrandbits(64) & ~(0xFFFF << (16 * pos)) | (val << (16 * pos))
            src = 0x0000555500001000 + 4 * rnd.randrange(0, 1 << 20)
            add("a64-linux", src, (src & ~0xfff) + 0x3000, fake)
    for fake in (0, 1, 2**64 - 1, 2**63, 0xFFFF, 0xFFFF0000, 0xFFFF00000000, 0xFFFF000000000000, 0x0001000100010001):
        add("a64-linux", 0x400000, 0x500000, fake)
        add("a64-macos", 0x100004000, 0x100104000, fake)
    # (b) entry displacements: around both edges of +/-128 MiB, each half of imm26, beyond range
    src0 = 0x0000007f80000000
    for d in list(range(-R - 256, -R + 260, 4)) + list(range(R - 256, R + 260, 4)):
        add("a64-linux", src0, src0 + d, 0x1122334455667788)
        add("a64-linux", src0 + 4, src0 + 4 + d, 0x1122334455667788)
    st = 32 if q else 1
    for lo in range(1, 8192, st):
        add("a64-linux", src0, src0 + 4 * lo + (1 << 20), 0xCAFE0000BEEF)      # + 1 MiB: entry and trampoline never overlap
        add("a64-linux", src0, src0 - 4 * lo - (1 << 20), 0xCAFE0000BEEF)
    for hi in range(1, 4096, st):          # upper 13 bits of a 26-bit word offset (positive half), and negative
        add("a64-linux", src0, src0 + 4 * (hi << 13), 0xCAFE0000BEEF)
        add("a64-linux", src0, src0 - 4 * (hi << 13) - 4, 0xCAFE0000BEEF)
    for d in (R + 4096, -(R + 4096), 1 << 30, -(1 << 30), (1 << 32) - 4, -(1 << 32), 1 << 27, 1 << 28, (1 << 29) - 4, 1 << 29):
        add("a64-linux", src0, src0 + d, 0xCAFE0000BEEF)
    msrc0 = 0x0000000180000000
    # (b') far out of range but congruent to something in range modulo 2^k, for every width the word or byte offset could be
    # narrowed to on the way to the range test (2^26 words ... 2^47 bytes): must be refused, never wrapped
    for k in range(28, 48):
        for m in (1, -1):
            for r in (0, 4, -4, 0x1000, -0x1000, R - 4, -R):
                d = m * (1 << k) + r
                base = src0 if 0 < src0 + d < (1 << 48) else (1 << 47) + 0x1000
                if 0 < base + d < (1 << 63):
                    add("a64-linux", base, base + d, 0xCAFE0000BEEF)
                    # the macOS long form is quantified over pc/target pairs within +/-4 GiB only (the allocator keeps
                    # +/-2 GiB there; beyond +/-4 GiB maybe_emit_long_jump has no range test -- observed, outside C15)
                    if k <= 31 and r in (0, 4, -R):
                        add("a64-macos", msrc0 + 0x40, msrc0 + 0x40 + d, 0xA1B2C3D4E5F6)
    # (c) macOS long form: low 12 bits exhaustively, each half of the 21-bit page delta, pc page offsets, +/-2 GiB edges
    msrc = 0x0000000180000000
    for low in range(0, 4096, 8 if q else 1):
        add("a64-macos", msrc + 4 * rnd.randrange(0, 1024), (msrc + (1 << 29)) & ~0xfff | low & ~3, 0xA1B2C3D4E5F6)
    for pd in range(0, 2048, 16 if q else 1):
        add("a64-macos", msrc, msrc + (pd << 12) + 0x40, 0xA1B2C3D4E5F6)
        add("a64-macos", msrc, msrc - (pd << 12) + 0x40, 0xA1B2C3D4E5F6)
        add("a64-macos", msrc, msrc + ((pd << 11) << 12) % (1 << 31) + 0x80, 0xA1B2C3D4E5F6)
        add("a64-macos", msrc, msrc - (((pd << 11) << 12) % (1 << 31)) + 0x80, 0xA1B2C3D4E5F6)
    for off in (0, 4, 0xffc, 0x800):
        for d in (R - 4, R, R + 4, -R, -R - 4, (1 << 31) - 4096, -(1 << 31), (1 << 31) - 4, 1 << 28):
            add("a64-macos", msrc + off, msrc + off + d, 0xA1B2C3D4E5F6)
    for d in list(range(-R - 64, -R + 68, 4)) + list(range(R - 64, R + 68, 4)):
        add("a64-macos", msrc + 8, msrc + 8 + d, 0x77)
    # (d) forced boolean
    for isa, s0 in (("a64-linux", src0), ("a64-macos", msrc)):
        for v in (0, 1):
            for d in (0x4000, -0x4000, R - 4096):
                add(isa, s0, s0 + d, 0, kind="bool", v=v)
    # very short targets: the function returns within its first one, two or three instructions (RET = d65f03c0), other code
    # follows; near and far trampolines
    RET, NOP, MOVZ = [0xc0, 0x03, 0x5f, 0xd6], [0x1f, 0x20, 0x03, 0xd5], [0xe0, 0x00, 0x80, 0x52]
    for isa, s0, far in (("a64-linux", src0, R - 0x10000), ("a64-macos", msrc, 1 << 30), ("a64-macos", msrc, -(1 << 30))):
        for body in (RET, MOVZ + RET, NOP + MOVZ + RET, NOP + NOP + MOVZ + RET):
            orig = (body + MOVZ + RET + MOVZ + RET)[:16]
            for d in (0x40000, far):
                add(isa, s0 + 0x100, s0 + 0x100 + d, 0x0000123456789ab0)
                cases[-1]["orig"] = orig
                add(isa, s0 + 0x100, s0 + 0x100 + d, 0, kind="bool", v=1)
                cases[-1]["orig"] = orig
    # a second installation on a function that already carries one
    for isa, s0 in (("a64-linux", src0), ("a64-macos", msrc)):
        for _ in range(10 if q else 300):
            add(isa, s0 + 4 * rnd.randrange(0, 1 << 16), s0 + (rnd.randrange(-R + 0x10000, R - 0x10000) & ~0xfff), rnd.getrandbits(64))
            cases[-1]["prev_fake"] = rnd.getrandbits(64) | 4
        add(isa, s0 + 64, s0 + 0x40000, 0, kind="bool", v=1)
        cases[-1]["prev_fake"] = 0x0000aaaabbbbccc0
    n_rand = 300 if q else 20000
    for _ in range(n_rand):
        isa = rnd.choice(["a64-linux", "a64-macos"])
        src = rnd.randrange(1 << 16, 1 << 47) & ~3
        span = R if isa == "a64-linux" else (1 << 31)
        add(isa, src, (src + rnd.randrange(-span, span)) & ~3, rnd.getrandbits(64))
    return cases


def arm_cases(tier):
    rnd = vlib.rnd("arm")
    q = tier == "quick"
    cases = []

    def add(isa, src, fake, kind="jump", v=0):
        cases.append({"isa": isa, "kind": kind, "src": src & 0xFFFFFFFF, "tramp": 0, "fake": fake & 0xFFFFFFFF, "v": v})
    step = 128 if q else 1
    for isa, align in (("a32", 0), ("t32", 1), ("t32", 3)):     # A32; T32 at 0 mod 4 (+1 Thumb bit); T32 at 2 mod 4
        for thumb_fake in (0, 1):
            for half in (0, 1):
                for val in range(rnd.randrange(step) if step > 1 else 0, 65536, step):
                    src = (rnd.getrandbits(32) & ~(0xFFFF << (16 * half)) | (val << (16 * half))) & ~3 | align
                    fake = rnd.getrandbits(32) & ~1 | thumb_fake
                    if src < 64:
                        src += 64
                    add(isa, src, fake)
                    fk = (rnd.getrandbits(32) & ~(0xFFFF << (16 * half)) | (val << (16 * half))) & ~1 | thumb_fake
                    add(isa, (rnd.getrandbits(32) & ~3 | align) or (64 | align), fk)
            for fake in (2, 3, 0xFFFFFFFE, 0xFFFFFFFF, 0x80000000, 0x80000001, 0x10000, 0x10001):
                add(isa, 0x8000 | align, fake & ~1 | thumb_fake)
        for v in (0, 1):
            add(isa, 0x20000 | align, 0, kind="bool", v=v)
        # the function already carries a fake (the entry holds the library's own sequence): a second installation on top
        for thumb_fake in (0, 1):
            for thumb_prev in (0, 1):
                for _ in range(6 if q else 200):
                    src = (rnd.getrandbits(32) & ~3 | align) or (64 | align)
                    add(isa, src, rnd.getrandbits(32) & ~1 | thumb_fake)
                    cases[-1]["prev_fake"] = (rnd.getrandbits(32) & ~1 | thumb_prev) or 2
                cases.append({"isa": isa, "kind": "bool", "src": 0x30000 | align, "tramp": 0, "fake": 0, "v": thumb_fake,
                              "prev_fake": 0x00512340 | thumb_prev})
    return cases


def sim_validate(run, prop, cases, chunk, key_fn, extra_props=()):
    """both builds of the simulated emitters: with debug assertions and overflow checks (what `cargo test` builds) and without (what
    a release build sees; every fourth case in the quick tier)"""
    res = _sim_validate(run, prop, cases, chunk, key_fn, extra_props, nodebug=False)
    if vlib.SIM_ND_OK:
        sub = cases if run.tier == "thorough" else cases[::4]
        g2, nev2, unk2 = _sim_validate(run, prop, sub, chunk, lambda fe: key_fn(fe) + " [built without debug assertions]", extra_props, nodebug=True)
        run.extra.setdefault("sim_cases_without_debug_assertions", 0)
        run.extra["sim_cases_without_debug_assertions"] += nev2
        res = (res[0], res[1], res[2] + unk2)
    return res


def _sim_validate(run, prop, cases, chunk, key_fn, extra_props=(), nodebug=False):
    """run the cases through the simulated emitters and validate the Sim events with TLC; long case lists go through in
    batches (driver run + validation per batch) so that neither the recorded events nor the TLC processes of the whole list
    are in memory at once.  Returns the events of the first batch (for samples), the number of validated cases, unknown words"""
    all_scen = [{"id": i, "cases": c} for i, c in enumerate(_chunks(cases, chunk), 1)]
    props = '{%s}' % ", ".join('"%s"' % p for p in (prop,) + tuple(extra_props) + ("ALL",))
    cfgp = tlc.make_cfg("Trace_Sim", {"Props": props}, "Trace_Sim_" + prop)
    import concurrent.futures
    BATCH = 120          # chunks per batch
    nev = 0
    unknown = 0
    first_groups = None
    for b0 in range(0, len(all_scen), BATCH):
        scen = all_scen[b0:b0 + BATCH]
        groups, order, _ = vlib.run_harness("sim", scen, "sim_" + prop + ("_nd" if nodebug else ""), timeout=3000, nodebug=nodebug)
        if first_groups is None:
            first_groups = groups
        # parallel TLC processes over slices of the scenarios
        nproc = 4 if len(scen) < 40 else 10
        slices = [scen[i::nproc] for i in range(nproc)]

        def one(k, slices=slices, groups=groups):
            sl = slices[k]
            return tlc.validate_traces("Trace_Sim", cfgp, [(sc["id"], groups.get(sc["id"], [])) for sc in sl], WORK,
                                       "trace_sim_%s%s_%d" % (prop, "_nd" if nodebug else "", k), timeout=3000)
        with concurrent.futures.ThreadPoolExecutor(max_workers=nproc) as ex:
            results = list(ex.map(one, range(nproc)))
        for tv in results:
            run.states += tv["states"]
            run.transitions += tv["transitions"]
            unknown += sum(1 for l in tv.get("raw", {}).get("prints", []) if l.startswith('<<"UNKNOWN"'))
            for sid in tv["ids"]:
                evs = groups.get(sid, [])
                reached, total = tv["progress"][sid]
                nev += reached
                run.traces += reached
                if sid not in tv["accepted"]:
                    fe = evs[reached] if reached < len(evs) else None
                    run.violation(key_fn(fe), {"first_unmatched_event": fe, "scenario_id": sid, "case_index": reached + 1,
                                               "note": "the remaining cases of this chunk were not examined; rerun after repair"})
        del groups, results
    return first_groups or {}, nev, unknown


def a64_check(prop, tier):
    run = Run(prop, tier)
    run.rule = ("cases = fake address with each 16-bit chunk swept in each position; entry displacements around +/-128 MiB (both sides, "
                "word by word), both halves of imm26, beyond range to +/-4 GiB; macOS long form: low 12 bits, both halves of the page "
                "delta, pc page offsets, +/-2 GiB edges; forced boolean; seeded random. The repository's arm64 sources are compiled on "
                "the host against a simulated memory; TLC decodes and executes the emitted bytes on A64.tla. distinct = distinct "
                "(isa, src, tramp, fake) tuples")
    run.assumptions = ["A64.tla transcribes B/NOP/MOVZ/MOVK/BR/RET/ADRP/ADD(imm) from the Arm ARM; cross-read by llvm-mc in selftest",
                       "three textual substitutions make the sources compile on x86-64 (build.rs)", "no AArch64 CPU executes the bytes here"]
    r = tlc.check("MC_Alloc", tlc.make_cfg("MC_Alloc_q", {"Branch": '"a64"', "AcceptTest": '"a64safe"'}, "MC_Alloc_a64"), workers=TLC_WORKERS, timeout=3000)
    run.add_model(r)
    if r["violation"]:
        run.design_violation(r)
    run.add_apalache("Apa_Encoder", "A64Reaches")
    vlib.build_harness()
    cases = a64_cases(tier)
    for c in cases:
        run.note_case("%s %x %x %x %s" % (c["isa"], c["src"], c["tramp"], c["fake"], c["kind"]))

    def key(fe):
        if fe is None:
            return "C15 harness-died"
        d = int.from_bytes(bytes(fe["tramp"]), "little") - int.from_bytes(bytes(fe["src"]), "little")
        return "C15 isa=%s kind=%s outcome=%s d=%+#x" % (fe["isa"], fe["kind"], fe["outcome"], d)
    groups, nev, unknown = sim_validate(run, prop, cases, 400, key)
    run.extra["sim_cases"] = {"cases": len(cases), "validated": nev, "unknown_instruction_words": unknown}
    ev0 = groups.get(1, [{}])[0]
    run.sample({k: ev0.get(k) for k in ("isa", "kind", "src", "tramp", "fake", "entry", "trampb", "outcome")})
    # the encoders have no range test of their own on macOS: what keeps their input in range is that platform's allocator
    platform_alloc_join(run, "C15", ("macos-a64", "linux-a64"), tier)
    return run.finish()


def arm_check(prop, tier):
    run = Run(prop, tier)
    run.rule = ("cases = three entry cases (A32; T32 at 0 mod 4; T32 at 2 mod 4) x fake in ARM/Thumb state x each 16-bit half of the target "
                "and of the fake address swept + edge values + boolean path; patch_arm.rs compiled on the host against a simulated memory; "
                "TLC executes the 12 bytes on A32T32.tla (PC+8 / Align(PC+4,4) literal addressing, BX interworking)")
    run.assumptions = ["A32T32.tla transcribes LDR(literal) A1/T1/T2, BX, NOP from the Arm ARM", "r9 counted as callee-saved (AAPCS on Linux)"]
    # design level: the three entry layouts as data, assembled and executed for every alignment / fake state
    r = tlc.check("MC_ArmSeq", "MC_ArmSeq", workers=2, timeout=600, coverage=False)
    run.add_model(r)
    if r["violation"]:
        run.design_violation(r)
    vlib.build_harness()
    cases = arm_cases(tier)
    for c in cases:
        run.note_case("%s %x %x %s" % (c["isa"], c["src"], c["fake"], c["kind"]))

    def key(fe):
        if fe is None:
            return "C16 harness-died"
        e = fe["entry"]
        # which register does the sequence load? (only used to name the finding)
        if fe["isa"] == "a32":
            reg = "r%d" % (e[1] >> 4)
            rule = "callee-saved-written" if (e[1] >> 4) in (4, 5, 6, 7, 8, 9, 10, 11, 13) else "other"
        else:
            h = e[0] | e[1] << 8
            if h in (0x46C0, 0xBF00):
                h = e[2] | e[3] << 8
            if h >> 11 == 9:
                reg = "r%d" % ((h >> 8) & 7)
                rule = "callee-saved-written" if ((h >> 8) & 7) >= 4 else "other"
            else:
                reg, rule = "?", "other"
        return "C16 isa=%s rule=%s reg=%s" % ("A32" if fe["isa"] == "a32" else "T32", rule, reg)
    # the forced-boolean cases of all three entry kinds once more, side by side in one scenario (their destination must agree)
    bools = [c for c in cases if c["kind"] == "bool" and not c.get("prev_fake")]
    cases = bools * 2 + cases
    groups, nev, unknown = sim_validate(run, prop, cases, 300, key)
    run.extra["sim_cases"] = {"cases": len(cases), "validated": nev, "unknown_instruction_words": unknown}
    ev0 = groups.get(1, [{}])[0]
    run.sample({k: ev0.get(k) for k in ("isa", "kind", "src", "fake", "entry", "outcome", "guard")})
    return run.finish()


# =============================================================== signature / boolean gates (C09, C10)

def sig_models(run):
    import sigfam
    fam = {"types": sigfam.records(), "bools": [{"tokens": b["tokens"], "is_bool": b["is_bool"], "ret": b["ret"]} for b in sigfam.BOOL_FAMILY]}
    path = os.path.join(WORK, "family.json")
    os.makedirs(WORK, exist_ok=True)
    json.dump(fam, open(path, "w"))
    r = tlc.check("MC_Sig", "MC_Sig", workers=1, timeout=600, coverage=False, env_extra={"FAMILY": path})
    run.add_model(r)
    if r["violation"]:
        run.design_violation(r)
    return fam


def sig_check(prop, tier):
    import sigfam
    run = Run(prop, tier)
    sigfam.generate()
    fam = sig_models(run)
    vlib.build_harness()
    if prop == "C09":
        run.rule = ("every ordered pair of a %d-member function-type family (one-point changes of arity, a parameter type, reference "
                    "mutability, return type, unsafety, ABI, order; two lifetime spellings exercised but not judged) x forms func!/func!, "
                    "func!/closure!, func!/fake!, typed target + unchecked fake, unchecked target + typed fake, null pointers; each pair is "
                    "a real installation; Pair events validated by TLC (Trace_Sig); async pairs by the async driver" % len(fam["types"]))
        scen = []
        for i, form in enumerate(["func", "closure", "fake", "typed-unchecked", "unchecked-typed", "null-fake", "null-target"], 1):
            scen.append({"id": i, "mode": "pairs", "form": form, "types": fam["types"]})
        # the verdict does not depend on the injector's history: the same pair first goes in through the unchecked entry
        # points, then the checked request follows in the same injector
        for form in ("func", "fake", "closure"):
            scen.append({"id": len(scen) + 1, "mode": "pairs", "form": form, "types": fam["types"], "primed": True})
        # ... nor on an earlier valid checked installation of the replacement's own type (then the request proper)
        for form in ("unchecked-typed", "typed-unchecked", "func"):
            scen.append({"id": len(scen) + 1, "mode": "pairs", "form": form, "types": fam["types"], "checked_first": True})
        groups, order, _ = vlib.run_harness("sig", scen, "sig_C09")
        # the same gate through EVERY arm of fake!: identical type accepted, another kind refused
        try:
            n_total, ok_arms, failed, nscen, arms_, _sc = arms_pipeline(run, "C09", 1)
            run.extra["fake_arms_gate"] = {"arms": n_total, "compiled": len(ok_arms), "scenarios": nscen}
        except ToolError as e:
            # the arm catalogue is C08's business; here it is an additional route to the gate
            print("NOTE: C09: part 'gate through every fake! arm' skipped -- %s" % str(e).splitlines()[0])
            run.extra["fake_arms_gate"] = {"skipped": str(e)[:500]}
        # async half: every ordered pair of output types through async_func! x async_return!
        ag, ao, _ = vlib.run_harness("asyncs", [{"id": 1, "mode": "asyncpairs"}], "asyncpairs_C09")
        aevs = [e for e in ag.get(1, []) if e["ev"] in ("AsyncPair", "ChildExit")]
        aper = [(k, [e]) for k, e in enumerate(aevs, 1)]
        tva = tlc.validate_traces("Trace_Async", "Trace_Async", aper, WORK, "trace_asyncpairs", timeout=600)
        run.traces += len(tva["accepted"])
        run.states += tva["states"]
        run.transitions += tva["transitions"]
        if sum(1 for e in aevs if e["ev"] == "AsyncPair") < 121:
            raise ToolError("vacuity guard: async pairs did not run")
        for sid, ev1 in aper:
            e = ev1[0]
            if e["ev"] == "AsyncPair":
                run.note_case("async %s->%s" % (e["t1"], e["t2"]))
            if sid not in tva["accepted"]:
                run.violation("C09 async target-output=%s fake-output=%s verdict=%s" % (e.get("t1"), e.get("t2"), e.get("verdict")), {"event": e})
    else:
        run.rule = ("boolean gate: %d target return types (bool, alias of bool, unsafe/extern bool functions, fn() -> bool, fn(u8) -> fn() -> bool, "
                    "Option<bool>, &bool, (bool,), Result<(), bool>, String, (), u8, *const bool, -> bool inside a parameter, Box<dyn Fn() -> bool>) x "
                    "both values, real installations; stub bytes (mov rax, imm32; ret) executed on X64.tla from the placement runs; "
                    "register probes around the call" % len(fam["bools"]))
        scen = [{"id": 1, "mode": "bool", "bools": fam["bools"]}]
        groups, order, _ = vlib.run_harness("sig", scen, "sig_C10")
    cfgp = tlc.make_cfg("Trace_Sig", {"Props": '{"%s", "ALL"}' % prop}, "Trace_Sig_" + prop)
    # one scenario per event so that every pair gets its own verdict
    per = []
    for sc in scen:
        for k, e in enumerate(groups.get(sc["id"], [])):
            if e["ev"] in ("Pair", "BoolGate", "ChildExit"):
                per.append((len(per) + 1, [e]))
    tv = tlc.validate_traces("Trace_Sig", cfgp, per, WORK, "trace_sig_" + prop, timeout=3000)
    run.traces += len(tv["accepted"])
    run.states += tv["states"]
    run.transitions += tv["transitions"]
    acc = ref = 0
    for sid, evs in per:
        e = evs[0]
        if e["ev"] == "Pair":
            run.note_case("%s %s->%s" % (e["form"], e["a"], e["b"]))
            acc += e["verdict"] == "accepted"
            ref += e["verdict"] == "refused"
        elif e["ev"] == "BoolGate":
            run.note_case("bool %s %s" % (e["k"], e["v"]))
            acc += e["verdict"] == "accepted"
            ref += e["verdict"] == "refused"
        if sid not in tv["accepted"]:
            if e["ev"] == "Pair":
                key = "C09 form=%s%s target=%s fake=%s verdict=%s" % (e["form"], " after the same pair through the unchecked entry points" if e.get("primed") else (" after a valid checked installation of the replacement's type" if e.get("checked_first") else ""),
                                                                        e["ta"]["text"], e["tb"]["text"], e["verdict"])
            elif e["ev"] == "BoolGate":
                key = "C10 ret=%s verdict=%s" % (e["fam"]["ret"], e["verdict"])
            else:
                key = "%s child exit signal=%s" % (prop, e.get("signal"))
            run.violation(key, {"event": e})
    if acc == 0 or ref == 0:
        raise ToolError("vacuity guard: accepted=%s refused=%s" % (acc, ref))
    run.extra["gate"] = {"accepted": acc, "refused": ref}
    run.sample(per[len(per) // 2][1][0])
    if prop == "C10":
        # stub bytes + native result through the placement driver (both values, straddling entries, low/high addresses)
        pscen = [sc for sc in placement_scenarios(tier) if sc.get("flavour") == "bool"]
        # ... and targets with unusual first instructions (landing pad, padding, forwarding thunks whose destination was never
        # named, a function that keeps state on its own page)
        pscen += [sc for sc in prologue_scenarios() if sc.get("flavour") == "bool"]
        for k, sc in enumerate(pscen, 1):
            sc["id"] = k
        pg, po, _ = vlib.run_harness("placement", pscen, "placement_C10", timeout=3000)
        cfg2 = tlc.make_cfg("Trace_Patch", {"Props": '{"C10", "ALL"}'}, "Trace_Patch_C10")
        live = [sc for sc in pscen if not any(e["ev"] == "Note" and e.get("what") == "skipped" for e in pg.get(sc["id"], []))]
        tv2 = tlc.validate_traces("Trace_Patch", cfg2, [(sc["id"], pg.get(sc["id"], [])) for sc in live], WORK, "trace_C10p", timeout=3000)
        run.traces += len(tv2["accepted"])
        run.states += tv2["states"]
        run.transitions += tv2["transitions"]
        run.extra["stub_placements"] = {"executed": len(live), "accepted": len(tv2["accepted"])}
        byid = {sc["id"]: sc for sc in pscen}
        for sid in tv2["ids"]:
            run.note_case("stub %s" % json.dumps({k: byid[sid][k] for k in byid[sid] if k != "id"}, sort_keys=True))
            if sid not in tv2["accepted"]:
                evs = pg.get(sid, [])
                reached, total = tv2["progress"][sid]
                run.violation("C10 stub v=%s page_off=%s" % (byid[sid].get("boolv"), byid[sid].get("off")),
                              {"scenario": byid[sid], "first_unmatched_event": evs[reached] if reached < len(evs) else None})
        # the same bool functions forced again in later injector lifetimes of the process, their pages mapped afresh (r-x) at the
        # same addresses in between (generated code that its owner re-emits), near and straddling entries
        mscen = []
        for base in (0x10000000, 0x200000000):
            for offs in ([0x100, 0x1000], [0xffc, 0x40], [0x0]):
                mscen.append({"id": len(mscen) + 1, "mode": "multi", "lives": [{"base": base, "pages": 2, "offs": offs, "bool": True} for _ in range(3)]})
        mg, mo, _ = vlib.run_harness("placement", mscen, "placement_C10m")
        tvm = tlc.validate_traces("Trace_Patch", cfg2, [(sc["id"], mg.get(sc["id"], [])) for sc in mscen], WORK, "trace_stub_C10m", timeout=600)
        run.traces += len(tvm["accepted"])
        for sc in mscen:
            run.note_case("bool again in later lifetimes " + json.dumps(sc["lives"][0]))
            if sc["id"] not in tvm["accepted"]:
                evs = mg.get(sc["id"], [])
                reached, total = tvm["progress"].get(sc["id"], (0, -1))
                run.violation("C10 forced again in a later lifetime base=%#x offs=%s" % (sc["lives"][0]["base"], sc["lives"][0]["offs"]),
                              {"scenario": sc, "first_unmatched_event": evs[reached] if reached < len(evs) else None})
        regs_part(run, "C10", tier)
        # a forced boolean installed on top of (or underneath) other fakes of the same function: every call while it is the
        # newest installation returns exactly the value
        hists, gr = gen_behaviours("MC_LifecycleApi_q", timeout=3000)
        hists = [h for h in hists if any(x["act"] == "Install" and x["kind"] == "bool" and x["gate"] == "ok" for x in h)
                 and sum(1 for x in h if x["act"] == "InstallOk") >= 2]
        run.states += gr["distinct"]
        run.transitions += gr["generated"]
        # ... and every pattern of up to three installations on one function over two fakes and both values
        h3f, g3f = gen_behaviours("MC_LifecycleApi_q3f", timeout=3000)
        hists += [h for h in h3f for _ in (0, 1) if any(x["act"] == "Install" and x["kind"] == "bool" for x in h)]
        run.states += g3f["distinct"]
        run.transitions += g3f["generated"]
        lscen = [hist_to_scenario(h, i, "rust", 2, diff=False) for i, h in enumerate(hists, 1)]
        lg, lo, _ = vlib.run_harness("lifecycle", lscen, "lifecycle_C10")
        cfg3 = tlc.make_cfg("Trace_Api", {"Props": '{"C10", "ALL"}'}, "Trace_Api_C10")
        tv3 = tlc.validate_traces("Trace_Api", cfg3, [(i, lg.get(i, [])) for i in range(1, len(hists) + 1)], WORK, "trace_C10l", timeout=3000)
        run.traces += len(tv3["accepted"])
        run.states += tv3["states"]
        run.transitions += tv3["transitions"]
        run.extra["refake_histories"] = {"behaviours": len(hists), "accepted": len(tv3["accepted"])}
        for sid in tv3["ids"]:
            run.note_case("refake " + history_key(hists[sid - 1]))
            if sid not in tv3["accepted"]:
                evs = lg.get(sid, [])
                reached, total = tv3["progress"][sid]
                run.violation("C10 history=%s" % history_key(hists[sid - 1]),
                              {"behaviour": hists[sid - 1], "first_unmatched_event": evs[reached] if reached < len(evs) else None})
    return run.finish()


# =============================================================== fake! arms (C08)

def arms_pipeline(run, prop, max_len, only_install=False):
    """generate + build + run + validate the per-arm instantiations; returns (n_total, ok_arms, failed, n_scen)"""
    import arms as A
    import concurrent.futures, subprocess
    arms, unparsed, n_total = A.generate(max_len)
    if unparsed or n_total != len(arms):
        raise ToolError("inconclusive: %d arm(s) of fake! not understood by the generator: %s" % (n_total - len(arms), unparsed))
    rc, out = A.build()
    failed = set(int(m) for m in re.findall(r'could not compile `verif-arms` \(bin "arm_(\d+)"\)', out))
    if rc != 0 and not failed:
        raise ToolError("arms crate failed to build:\n" + out[-3000:])
    for i in sorted(failed):
        if prop != "C08":
            continue
        a = arms[i]
        errs = [l for l in out.splitlines() if ("arm_%02d.rs" % i) in l][:3]
        run.violation("C08 %s stage=compile" % A.arm_key(a), {"arm": a, "rustc": errs,
                      "instantiation": open(os.path.join(A.CRATE, "src", "bin", "arm_%02d.rs" % i)).read()})
    ok_arms = [i for i in range(len(arms)) if i not in failed]

    def runbin(i):
        p = subprocess.run([os.path.join(A.CRATE, "target", "debug", "arm_%02d" % i)], stdout=subprocess.PIPE, stderr=subprocess.DEVNULL,
                           text=True, timeout=600)
        return i, p.stdout
    scen = []
    with concurrent.futures.ThreadPoolExecutor(max_workers=8) as ex:
        for i, text in ex.map(runbin, ok_arms):
            a = arms[i]
            cur = None
            for line in text.splitlines():
                try:
                    e = json.loads(line)
                except json.JSONDecodeError:
                    continue
                if e["ev"] == "ArmBegin":
                    e.update({"keys": a["keys"], "unit": a["unit"], "unwinds": "extern" not in a["kind"], "kind": a["kind"]})
                    cur = [e]
                    scen.append(((i, e["sid"]), cur))
                elif cur is not None:
                    cur.append(e)
    import itertools
    idx = {k: n for n, (k, _) in enumerate(scen, 1)}
    nproc = 6
    slices = [scen[j::nproc] for j in range(nproc)]

    def val(j):
        return tlc.validate_traces("Trace_Arms", "Trace_Arms", [(idx[k], evs) for k, evs in slices[j]], WORK, "trace_arms_%d" % j, timeout=3000)
    with concurrent.futures.ThreadPoolExecutor(max_workers=nproc) as ex:
        results = list(ex.map(val, range(nproc)))
    rev = {n: k for k, n in idx.items()}
    bysid = dict(scen)
    for tv in results:
        run.states += tv["states"]
        run.transitions += tv["transitions"]
        run.traces += len(tv["accepted"])
        for sid in tv["ids"]:
            i, s_ = rev[sid]
            evs = bysid[(i, s_)]
            run.note_case("arm%d n=%s script=%s" % (i, evs[0]["n"], evs[0]["script"]))
            if sid not in tv["accepted"]:
                reached, total = tv["progress"][sid]
                fe = evs[reached] if reached < len(evs) else None
                gate_event = fe is not None and (fe["ev"] in ("ArmInstalled", "ArmWrong")
                                                 or (fe["ev"] == "ArmPanic" and fe.get("cls") == "sig-mismatch"))
                if prop == "C09" and not gate_event:
                    continue
                run.violation("%s %s stage=%s n=%s script=%s at=%s" % (prop, A.arm_key(arms[i]), "gate" if gate_event else "script",
                                                                        evs[0]["n"], evs[0]["script"], fe["ev"] if fe else None),
                              {"arm": arms[i], "events": evs, "trace_rejected_at": reached, "first_unmatched_event": fe})
    return n_total, ok_arms, failed, len(scen), arms, scen


def arms_check(prop, tier):
    import arms as A
    import concurrent.futures, subprocess
    run = Run(prop, tier)
    max_len = 3 if tier == "quick" else 4
    run.rule = ("arms = every arm of macro_rules! fake parsed from /repo/src/interface/macros.rs at check time; one generated [[bin]] per arm "
                "(compile failures attributed by cargo --keep-going: the 'compiles' half is decided by rustc); each compiled arm runs every "
                "script of <= %d calls over {matching, rejected} for N in 0..2 in a forked child; outcomes validated by TLC against "
                "FakeCall(opts) (Trace_Arms); distinct = (arm, N, script)" % max_len)
    run.assumptions = ["the arm parser recognises the matcher shape `func_type: [unsafe] [extern \"ABI\"] fn(..) -> $ret:ty | ()` followed by option keys; an arm it cannot parse is reported as inconclusive"]
    r = tlc.check("MC_Arms", "MC_Arms", workers=4, timeout=600)
    run.add_model(r)
    if r["violation"]:
        run.design_violation(r)
    n_total, ok_arms, failed, nscen, arms, scen = arms_pipeline(run, prop, max_len)
    run.extra["arms"] = {"in_source": n_total, "compiled": len(ok_arms), "failed_to_compile": len(failed), "scripts": nscen}
    if scen:
        run.sample({"arm": arms[scen[len(scen) // 2][0][0]], "events": scen[len(scen) // 2][1][:6]})
    return run.finish()


# =============================================================== async (C14)

def async_check(prop, tier):
    run = Run(prop, tier)
    run.rule = ("sequences = every sequence of %s steps of New / Fake(a,v) / Await(a, same or other thread) / Drop over 3 sibling async functions "
                "(a1 and a2 share the output type; a1 suspends once) generated by TLC from MC_Async, replayed under a hand-written executor that "
                "counts polls, body runs and value evaluations; plus fixed shapes (method, unit output, 256-byte output, by-reference parameter) "
                "and the wrong-output-type refusal; validated by TLC (Trace_Async)" % ("4" if tier == "quick" else "6 (sampled)"))
    run.assumptions = ["async functions are #[inline(never)]; their futures' poll functions are the patch targets"]
    cfg = "MC_Async_q" if tier == "quick" else "MC_Async_t"
    r = tlc.check("MC_Async", cfg, workers=1, timeout=3000, coverage=False)
    run.add_model(r)
    if r["violation"]:
        run.design_violation(r)
    hists = tlc.parse_replay_lines(r["prints"])
    rnd = vlib.rnd("async")
    # sequences without any Fake exercise nothing: keep a handful
    withfake = [h for h in hists if any(x["act"] == "Fake" for x in h)]
    nofake = [h for h in hists if not any(x["act"] == "Fake" for x in h)]
    rnd.shuffle(nofake)
    rnd.shuffle(withfake)
    limit = 1500 if tier == "quick" else 20000
    hists = withfake[:limit] + nofake[:40]
    # longer sequences (10 steps) sampled by TLC's simulator, and re-fake ladders: one function faked k times in one
    # injector, then a sibling, then everything awaited
    rl = tlc.check("MC_Async", "MC_Async_long", workers=1, timeout=3000, coverage=False,
                   sim={"num": 300 if tier == "quick" else 5000, "depth": 12, "seed": vlib.seed()})
    if rl["violation"]:
        run.design_violation(rl)
    seenl = set()
    for h in tlc.parse_replay_lines(rl["prints"]):
        k = json.dumps(h, sort_keys=True)
        if k not in seenl and sum(1 for x in h if x["act"] == "Fake") >= 3:
            seenl.add(k)
            hists.append(h)
    for k in (2, 3, 4, 5, 6):
        for sib in ("a2", "a3"):
            lad = [{"act": "New"}] + [{"act": "Fake", "a": "a1", "v": "v1" if j % 2 == 0 else "v2"} for j in range(k)]
            lad += [{"act": "Fake", "a": sib, "v": "v2"}, {"act": "Await", "a": "a1", "thread": False}, {"act": "Await", "a": sib, "thread": True},
                    {"act": "Await", "a": "a1", "thread": True}, {"act": "Drop"}]
            hists.append(lad)
    # one injector holding dozens of installations of the three siblings, interleaved (re-fakes everywhere), then gone
    for total in (36, 48, 72):
        big = [{"act": "New"}] + [{"act": "Fake", "a": "a%d" % (1 + (j * 7 + j // 3) % 3), "v": "v1" if j % 2 == 0 else "v2"} for j in range(total)]
        big += [{"act": "Await", "a": a, "thread": False} for a in ("a1", "a2", "a3")] + [{"act": "Drop"}]
        big += [{"act": "Await", "a": a, "thread": t} for a in ("a1", "a2", "a3") for t in (False, True)]
        hists.append(big)
    run.extra["long_sequences"] = len(seenl)
    # requests the operating system refuses (the poll function's page does not become writable): a panic, nothing changes
    rf = tlc.check("MC_Async", "MC_Async_f", workers=1, timeout=3000, coverage=False)
    if rf["violation"]:
        run.design_violation(rf)
    hf = [h for h in tlc.parse_replay_lines(rf["prints"]) if any(x["act"] == "FakeRefused" for x in h)]
    rnd.shuffle(hf)
    hists += hf[:400 if tier == "quick" else 5000]
    run.extra["refused_request_sequences"] = min(len(hf), 400 if tier == "quick" else 5000)
    vlib.build_harness()
    scen = [{"id": i, "mode": "seq", "steps": h, "unmet_counted": (i % 4 == 0)} for i, h in enumerate(hists, 1)]
    scen.append({"id": len(scen) + 1, "mode": "shapes"})
    groups, order, _ = vlib.run_harness("asyncs", scen, "asyncs_C14", timeout=3000)
    import concurrent.futures
    nproc = 4
    sl = [scen[j::nproc] for j in range(nproc)]

    def val(j):
        return tlc.validate_traces("Trace_Async", "Trace_Async", [(sc["id"], groups.get(sc["id"], [])) for sc in sl[j]], WORK,
                                   "trace_async_%d" % j, timeout=3000)
    with concurrent.futures.ThreadPoolExecutor(max_workers=nproc) as ex:
        results = list(ex.map(val, range(nproc)))
    byid = {sc["id"]: sc for sc in scen}
    for tv in results:
        run.states += tv["states"]
        run.transitions += tv["transitions"]
        run.traces += len(tv["accepted"])
        for sid in tv["ids"]:
            sc = byid[sid]
            key = "shapes" if sc["mode"] == "shapes" else " ".join(
                x["act"] + ("(%s%s)" % (x.get("a", ""), "," + x["v"] if "v" in x else "") if "a" in x else "") for x in sc["steps"])
            run.note_case(key)
            if sid not in tv["accepted"]:
                evs = groups.get(sid, [])
                reached, total = tv["progress"][sid]
                run.violation("C14 seq=%s" % key, {"scenario": sc, "trace_rejected_at": reached,
                                                   "first_unmatched_event": evs[reached] if reached < len(evs) else None, "events": evs})
    run.sample({"sequence": scen[0].get("steps"), "events": [e for e in groups.get(1, []) if e["ev"] in ("Fake", "Await", "Drop")]})
    # the OS-level discipline of installing and removing (order of writes, flushes, unmapping) on the poll functions of async fns:
    # lifecycle behaviours executed on pool "async" through both async API families, validated by Trace_Api under C14
    hl, gl = gen_behaviours("MC_LifecycleApi_q", timeout=3000)
    hl = [h for h in hl if not any(x["act"] == "Install" and (x["kind"] == "bool" or x["n"] >= 0 or x["gate"] not in ("ok", "sig", "abandon")) for x in h)
          and not any(x["act"] in ("Call", "CallUnwind") and not x.get("match", True) for x in h)]
    h3f, g3f = gen_behaviours("MC_LifecycleApi_q3f", timeout=3000)
    hl += [h for h in h3f if not any(x["act"] == "Install" and x["kind"] == "bool" for x in h)]
    run.states += gl["distinct"] + g3f["distinct"]
    run.transitions += gl["generated"] + g3f["generated"]
    lscen = [hist_to_scenario(h, i, "async", 2, diff=False) for i, h in enumerate(hl, 1)]
    lg, lo, _ = vlib.run_harness("lifecycle", lscen, "lifecycle_C14")
    cfgl = tlc.make_cfg("Trace_Api", {"Props": '{"C14", "ALL"}'}, "Trace_Api_C14")
    tvl = tlc.validate_traces("Trace_Api", cfgl, [(i, lg.get(i, [])) for i in range(1, len(hl) + 1)], WORK, "trace_C14l", timeout=3000)
    run.traces += len(tvl["accepted"])
    run.states += tvl["states"]
    run.transitions += tvl["transitions"]
    run.extra["lifecycle_on_async_pool"] = {"behaviours": len(hl), "accepted": len(tvl["accepted"])}
    for sid in tvl["ids"]:
        run.note_case("async lifecycle " + history_key(hl[sid - 1]))
        if sid not in tvl["accepted"]:
            evs = lg.get(sid, [])
            reached, total = tvl["progress"][sid]
            run.violation("C14 history=%s" % history_key(hl[sid - 1]),
                          {"behaviour": hl[sid - 1], "trace_rejected_at": reached, "first_unmatched_event": evs[reached] if reached < len(evs) else None})
    # the async entry points through the placement lattice: the poll function of an async fn as target, the trampoline
    # page dictated around it, the fake (unchecked pointer) at exact displacements around +/-2^31 from the trampoline and far
    M31 = 1 << 31
    pscen = []
    disps = [M31 + k for k in range(-6, 7)] + [-M31 + k for k in range(-6, 7)] + [1 << 20, -(1 << 20), 1 << 33, -(1 << 33), 1 << 40]
    # trampoline pages well outside the harness image (a few MiB of text): +/-16 MiB, +/-64 MiB, the window's ends
    for dl in ((4096, -4096) if tier == "quick" else (4096, -4096, 16384, -16384, 32767, -32767)):
        for d in disps:
            pscen.append({"id": len(pscen) + 1, "flavour": "async", "tramp_delta_pages": dl, "disp": d})
    pg, po, _ = vlib.run_harness("placement", pscen, "placement_C14", timeout=3000)
    cfgp = tlc.make_cfg("Trace_Patch", {"Props": '{"C14", "ALL"}'}, "Trace_Patch_C14")
    live = [sc for sc in pscen if not any(e["ev"] == "Note" and e.get("what") == "skipped" for e in pg.get(sc["id"], []))]
    n_ok = sum(1 for sc in live for e in pg.get(sc["id"], []) if e["ev"] == "Installed" and e["outcome"] == "ok")
    if len(live) < len(pscen) // 2 or n_ok < len(live) // 2:
        raise ToolError("vacuity guard: %d of %d async placements executed, %d installed" % (len(live), len(pscen), n_ok))
    tvp = tlc.validate_traces("Trace_Patch", cfgp, [(sc["id"], pg.get(sc["id"], [])) for sc in live], WORK, "trace_C14p", timeout=3000)
    run.traces += len(tvp["accepted"])
    run.states += tvp["states"]
    run.transitions += tvp["transitions"]
    run.extra["async_placements"] = {"generated": len(pscen), "executed": len(live), "accepted": len(tvp["accepted"])}
    bypid = {sc["id"]: sc for sc in pscen}
    for sid in tvp["ids"]:
        run.note_case("async placement delta=%s disp=%s" % (bypid[sid]["tramp_delta_pages"], bypid[sid]["disp"]))
        if sid not in tvp["accepted"]:
            evs = pg.get(sid, [])
            reached, total = tvp["progress"][sid]
            run.violation("C14 async placement tramp_delta_pages=%s fake_disp=%+#x" % (bypid[sid]["tramp_delta_pages"], bypid[sid]["disp"]),
                          {"scenario": bypid[sid], "trace_rejected_at": reached, "first_unmatched_event": evs[reached] if reached < len(evs) else None,
                           "events": [e for e in evs if e["ev"] in ("Place", "Installed", "Called", "Dropped", "ChildExit", "Neighbour")]})
    return run.finish()


# =============================================================== calling convention (C13)

def regs_part(run, prop, tier):
    """assembly probes validated by TLC (Trace_Regs)"""
    n = 150 if tier == "quick" else 3000
    if prop == "C13":
        scen = [{"id": 1, "form": "near", "n": n}, {"id": 2, "form": "far", "n": n}, {"id": 3, "mode": "shapes", "n": n}]
        # targets whose first instruction touches an argument / the stack / a vector register, under every kind of leading byte
        for tk in range(1, 11):
            for form in ("near", "far"):
                scen.append({"id": len(scen) + 1, "form": form, "n": max(10, n // 10), "target": tk})
    else:
        scen = [{"id": 1, "form": "bool", "n": n, "v": True}, {"id": 2, "form": "bool", "n": n, "v": False}]
    groups, order, _ = vlib.run_harness("regs", scen, "regs_" + prop, timeout=3000)
    cfgp = tlc.make_cfg("Trace_Regs", {"Props": '{"%s", "ALL"}' % prop}, "Trace_Regs_" + prop)
    # one scenario per probe so that every register file gets its own verdict
    per = []
    for sc in scen:
        for e in groups.get(sc["id"], []):
            if e["ev"] in ("RegProbe", "ProbeEnd", "Shapes", "ChildExit"):
                per.append((len(per) + 1, [e]))
    tv = tlc.validate_traces("Trace_Regs", cfgp, per, WORK, "trace_regs_" + prop, timeout=3000)
    run.traces += len(tv["accepted"])
    run.states += tv["states"]
    run.transitions += tv["transitions"]
    nprobe = 0
    for sid, evs in per:
        e = evs[0]
        if e["ev"] == "RegProbe":
            nprobe += 1
            run.note_case("probe %s %s" % (e["form"], e["in"][0]))
        if sid not in tv["accepted"]:
            if e["ev"] == "RegProbe":
                diff = [i for i in range(28) if e["seen"][i] != e["in"][i] and i in list(range(0, 20)) + [21, 22]]
                diffa = [i for i in range(14, 20) if e["after"][i] != e["in"][i]]
                key = "%s probe form=%s changed_at_fake=%s changed_after=%s rsp_ok=%s/%s" % (prop, e["form"], diff, diffa, e["rsp_at_fake_ok"], e["rsp_after_ok"])
            else:
                key = "%s %s" % (prop, json.dumps({k: e[k] for k in e if k not in ("seq", "t", "sc")}, sort_keys=True))
            run.violation(key, {"event": e})
    if nprobe == 0:
        raise ToolError("vacuity guard: no register probe executed")
    run.extra["register_probes"] = nprobe
    run.sample({k: per[0][1][0].get(k) for k in ("form", "in", "seen", "after")})


def cc_check(prop, tier):
    """C13 = recorded bytes on the ISA models (x86-64 placements, arm64/arm simulated) + assembly probes + Rust-level shapes"""
    run = Run(prop, tier)
    run.rule = ("(a) entry/trampoline bytes of a lattice of placements (short and long trampoline form) executed on X64.tla: only rax/r10/r11 may be "
                "written; (b) simulated arm64 / arm bytes: no argument or callee-saved register written; (c) assembly caller/fake probes with seeded "
                "random register files (6 integer + 8 vector argument registers, 2 stack arguments, callee-saved set, rsp), near and far fakes; "
                "(d) Rust-level fakes with 14 mixed integer/float arguments, 200-byte struct return (hidden return slot), two-register return")
    run.assumptions = ["System V AMD64 calling convention", "far probe reaches the assembly fake through a hop that uses r11 (free scratch)"]
    r = tlc.check("MC_Geom", "MC_Geom_q", workers=TLC_WORKERS, timeout=3000)
    run.add_model(r)
    vlib.build_harness()
    # (a)
    scen = [sc for sc in placement_scenarios(tier) if sc.get("flavour") != "bool"]
    for k, sc in enumerate(scen, 1):
        sc["id"] = k
    groups, order, _ = vlib.run_harness("placement", scen, "placement_C13", timeout=3000)
    cfgp = tlc.make_cfg("Trace_Patch", {"Props": '{"C13", "ALL"}'}, "Trace_Patch_C13")
    live = [sc for sc in scen if not any(e["ev"] == "Note" and e.get("what") == "skipped" for e in groups.get(sc["id"], []))]
    tv = tlc.validate_traces("Trace_Patch", cfgp, [(sc["id"], groups.get(sc["id"], [])) for sc in live], WORK, "trace_C13p", timeout=3000)
    run.traces += len(tv["accepted"])
    run.states += tv["states"]
    run.transitions += tv["transitions"]
    byid = {sc["id"]: sc for sc in scen}
    forms = {"short": 0, "long": 0}
    for sid in tv["ids"]:
        evs = groups.get(sid, [])
        inst = next((e for e in evs if e["ev"] == "Installed"), None)
        if inst and inst["outcome"] == "ok":
            forms["short" if inst["trampb"][0] == 0xE9 else "long"] += 1
        run.note_case("placement %s" % json.dumps({k: byid[sid][k] for k in byid[sid] if k != "id"}, sort_keys=True))
        if sid not in tv["accepted"]:
            reached, total = tv["progress"][sid]
            fe = evs[reached] if reached < len(evs) else None
            # crashes of the installation itself belong to C01, not to the calling convention
            if fe is not None and fe["ev"] == "Installed":
                run.violation("C13 bytes trampoline=%s" % bytes(fe["trampb"][:12]).hex(), {"scenario": byid[sid], "event": fe})
            elif fe is not None and fe["ev"] == "Write" and fe.get("region") == "entry":
                run.violation("C13 the entry was written while the trampoline it leads to was still empty (a call in between carries its arguments nowhere)",
                              {"scenario": byid[sid], "event": {k: fe.get(k) for k in ("region", "name", "changed")},
                               "events": [e["ev"] + ":" + str(e.get("region", "")) for e in evs[max(0, reached - 5):reached + 2]]})
    if forms["short"] == 0 or forms["long"] == 0:
        raise ToolError("vacuity guard: trampoline forms seen %s" % forms)
    run.extra["trampoline_forms"] = forms
    # (b)
    cases = a64_cases("quick")[::7] + arm_cases("quick")[::5] if tier == "quick" else a64_cases("quick") + arm_cases("quick")

    def key(fe):
        return "C13 simulated isa=%s" % (fe["isa"] if fe else "?")
    run.sim_part("simulated arm64 / arm emitters", lambda: sim_validate(run, "C13", cases, 300, key))
    # (c) + (d)
    regs_part(run, "C13", tier)
    return run.finish()


CHECKS = {
    "C01": placement_check,
    "C14": async_check,
    "C08": arms_check,
    "C09": sig_check,
    "C10": sig_check,
    "C13": cc_check,
    "C15": a64_check,
    "C16": arm_check,
    "C04": lock_check,
    "C06": times_check,
    "C11": alloc_check,
    "C02": lifecycle_check,
    "C05": lifecycle_check,
    "C07": lifecycle_check,
    "C03": lifecycle_check,
    "C12": lifecycle_check,
    "C17": lifecycle_check,
}


# =============================================================== selftest

DEVIATIONS = [
    # (module, base cfg, overrides, invariant / property that must fail)
    ("MC_Lifecycle", "MC_Lifecycle_q1", {"DropOrder": '"forward"'}, ("Restored", "LatestWins", "NoWildAtUser", "OnlyNamed")),
    ("MC_Lifecycle", "MC_Lifecycle_q2", {"ResetCounterOnInstall": "FALSE"}, ("FreshCount",)),
    ("MC_Lifecycle", "MC_Lifecycle_q1", {"MprotectSpan": '"firstPage"'}, ("NoFault",)),
    ("MC_Lifecycle", "MC_Lifecycle_q1", {"VerifySilent": "FALSE"}, ("NoAbort",)),
    ("MC_Lifecycle", "MC_Lifecycle_q1", {"SwallowPoison": "FALSE"}, ("Reusable",)),
    ("MC_Lifecycle", "MC_Lifecycle_q1", {"FlushEntry": "FALSE"}, ("FlushedAtUser",)),
    ("MC_Lifecycle", "MC_Lifecycle_q1", {"UnmapOnDrop": "FALSE"}, ("NoLeak",)),
    ("MC_Lifecycle", "MC_Lifecycle_rg", {"SavedFrom": '"first"'}, ("OnlyNamed", "Restored")),
    ("MC_Lifecycle", "MC_Lifecycle_rg", {"SavedFrom": '"ptr"'}, ("OnlyNamed", "Restored", "NoWildAtUser")),
    ("MC_Lifecycle", "MC_Lifecycle_fr", {"AllocAt": '"fixed"'}, ("ForeignIntact",)),
    ("MC_Lifecycle", "MC_Steps_q", {"VerifierStep": '"last"'}, ("ResetBeforeLive",)),
    ("MC_Lifecycle", "MC_Lifecycle_rf", {"LockByHand": "TRUE"}, ("IdleClean", "HolderIsLock", "Mutex")),
    ("MC_Lock", "MC_Lock_q", {"UnlockFirst": "TRUE"}, ("Mutex", "FreeMeansOrig", "PrevSeesOrig", "HolderIsLock")),
    ("MC_Lock", "MC_Lock_q", {"SwallowPoison": "FALSE"}, ("Reusable", "HandOver", "NoStuck", "temporal")),
    ("MC_Times", "MC_Times_q", {"AtomicCount": '"loadStore"'}, ("Accounting", "Budget", "ExitVerdict")),
    ("MC_Times", "MC_Times_q", {"Compare": '"gt"'}, ("Budget", "Accounting")),
    ("MC_Alloc", "MC_Alloc_q", {"Branch": '"a64"'}, ("InReach",)),
    ("MC_Alloc", "MC_Alloc_q", {"UnmapRejected": "FALSE"}, ("NoLeftover",)),
    ("MC_Alloc", "MC_Alloc_w", {"AcceptTest": '"le"'}, ("InReach",)),
    ("MC_Geom", "MC_Geom_q", {"RangeTest": '"offByOne"'}, ("OnPath", "Arrives", "InRange")),
    ("MC_Geom", "MC_Geom_q", {"MprotectSpan": '"firstPage"'}, ("NoFault",)),
    ("MC_Geom", "MC_Geom_q", {"EndOffset": "0"}, ("OnPath", "Arrives", "InRange")),
    ("MC_Platform", "MC_Platform_q", {"ProtectLen": '"eight"'}, ("NoFault",)),
    ("MC_Platform", "MC_Platform_q", {"ProtectLen": '"firstpage"'}, ("NoFault",)),
    ("MC_Platform", "MC_Platform_q", {"TrampFlush": "FALSE"}, ("FlushedAtReturn",)),
    ("MC_Platform", "MC_Platform_q", {"JitBack": "FALSE"}, ("ExecModeAtReturn",)),
    ("MC_Async", "MC_Async_q", {"RestoreOnDrop": "FALSE"}, ("FakedOnlyWhileAlive", "LastFakeWins")),
    ("MC_Async", "MC_Async_q", {"IsolateSiblings": "FALSE"}, ("LastFakeWins",)),
    ("MC_Arms", "MC_Arms", {"AssignBeforeCount": "TRUE"}, ("SideEffects",)),
    # documented hazards outside the listed properties: reachable when the switch is on
    ("MC_Lifecycle", "MC_Lifecycle_q1", {"AllowNested": "TRUE"}, ("NoSelfDeadlock",)),
    ("MC_Lifecycle", "MC_Lifecycle_q1", {"KeepPagesWritable": "TRUE"}, ("WX",)),
    ("MC_Lock", "MC_Lock_q", {"OthersCall": '"always"'}, ("NoFault",)),
    ("MC_Lifecycle", "MC_Steps_q", {"TrampFlushed": "FALSE"}, ("FlushedAtUser",)),
    ("MC_ArmSeq", "MC_ArmSeq", {"Scratch": "7"}, ("OnlyScratch",)),
    ("MC_ArmSeq", "MC_ArmSeq", {"Scratch": "9"}, ("OnlyScratch",)),
    ("MC_ArmSeq", "MC_ArmSeq", {"ImmT": "2"}, ("Reaches", "OneLoad")),
]


def corrupt_traces(groups):
    """(name, property, corrupted event list): each must be REJECTED by Trace_Api under that property"""
    import copy
    # pick a scenario with two successful installs followed by a normal drop
    def good(evs):
        return (sum(1 for e in evs if e["ev"] == "InstallEnd" and e["outcome"] == "ok") >= 1
                and any(e["ev"] == "DropEnd" for e in evs) and not any(e["ev"] == "UserPanic" for e in evs))
    base = next(evs for evs in groups.values() if good(evs))
    out = [("unmodified", "C02", base, True)]

    def mod(name, prop, fn):
        evs = copy.deepcopy(base)
        fn(evs)
        out.append((name, prop, evs, False))
    def flip_restore(evs):
        i = max(k for k, e in enumerate(evs) if e["ev"] == "Write" and e["region"] == "entry")
        evs[i]["new"][0] ^= 0xFF
    mod("flip one byte of the restored entry", "C02", flip_restore)
    def wrong_call(evs):
        i = next(k for k, e in enumerate(evs) if e["ev"] == "Call" and e["res"] not in ("orig",))
        evs[i]["res"] = "orig"
    mod("a call answered by the original while a fake is installed", "C02", wrong_call)
    def drop_flush(evs):
        i = next(k for k, e in enumerate(evs) if e["ev"] == "Flush" and any(c["name"].startswith("f") for c in e["covers"]))
        del evs[i]
    mod("entry flush removed", "C17", drop_flush)
    def drop_tramp_flush(evs):
        i = next(k for k, e in enumerate(evs) if e["ev"] == "Flush" and any(c["name"].startswith("m") for c in e["covers"]))
        del evs[i]
    mod("trampoline flush removed (entry written before its trampoline is flushed)", "C17", drop_tramp_flush)
    def drop_munmap(evs):
        i = max(k for k, e in enumerate(evs) if e["ev"] == "Munmap")
        del evs[i]
    mod("final munmap removed (leak)", "C12", drop_munmap)
    def double_munmap(evs):
        i = max(k for k, e in enumerate(evs) if e["ev"] == "Munmap")
        evs.insert(i + 1, copy.deepcopy(evs[i]))
    mod("trampoline unmapped twice", "C12", double_munmap)
    def stray_write(evs):
        i = next(k for k, e in enumerate(evs) if e["ev"] == "Write" and e["region"] == "entry")
        w = copy.deepcopy(evs[i])
        w["changed"] = [17]
        evs.insert(i + 1, w)
    mod("a write to the neighbour cell after the slot", "C03", stray_write)
    def foreign_diff(evs):
        i = next(k for k, e in enumerate(evs) if e["ev"] == "DropEnd")
        evs.insert(i + 1, {"ev": "Diff", "phase": "after", "n": 1, "regions": [{"sym": "other", "off": 0, "len": 3}], "sc": evs[i]["sc"]})
    mod("a foreign byte differs after the drop", "C03", foreign_diff)
    def lock_released(evs):
        i = max(k for k, e in enumerate(evs) if e["ev"] == "Mprotect")
        evs[i]["lock"] = 0
    mod("guard not held during the restore", "C04", lock_released)
    def held_after(evs):
        i = next(k for k, e in enumerate(evs) if e["ev"] == "DropEnd")
        evs[i]["lock"] = 1
    mod("guard still held after the scope exit", "C05", held_after)
    return out


def do_selftest():
    ok = True
    print("== deviation switches: TLC must find a counterexample")
    for module, base, over, names in DEVIATIONS:
        cfg = tlc.make_cfg(base, over, "dev_" + base + "_" + "_".join(over))
        r = tlc.check(module, cfg, workers=TLC_WORKERS, timeout=1200, coverage=False)
        v = r["violation"]
        good = v is not None and (v["name"] in names or v["kind"] in ("temporal", "action-property") and ("temporal" in names or v["name"] in names))
        print("  %-14s %-40s -> %s %s" % (module, over, (v or {}).get("name"), "ok" if good else "UNEXPECTED"))
        ok = ok and good
    print("== user discipline that rules the drop hazard out: others call only while nobody is inside the library")
    cfg = tlc.make_cfg("MC_Lock_q", {"OthersCall": '"atUser"'}, "dev_MC_Lock_atUser")
    r = tlc.check("MC_Lock", cfg, workers=TLC_WORKERS, timeout=1200, coverage=False)
    good = r["violation"] is None
    print("  MC_Lock OthersCall=atUser -> %s (%d states) %s" % ((r["violation"] or {}).get("name"), r["distinct"], "ok" if good else "UNEXPECTED"))
    ok = ok and good
    print("== two levels, one meaning: event streams EMITTED by the design model must be accepted by the trace specification")
    props = '{"C02", "C03", "C04", "C05", "C12", "C17", "ALL"}'

    def emitted(overrides, tag):
        cfg = tlc.make_cfg("MC_LifecycleEv_2", overrides, "ev_" + tag) if overrides else "MC_LifecycleEv_2"
        r = tlc.check("MC_LifecycleEv", cfg, workers=1, timeout=1200, coverage=False, sim={"num": 1500, "depth": 90, "seed": vlib.seed()})
        streams = tlc.parse_replay_lines(r["prints"])
        uniq, seen = [], set()
        for st in streams:
            k = json.dumps(st, sort_keys=True)
            if k not in seen:
                seen.add(k)
                uniq.append(st)
        split = {"f1": 4, "f2": 2}
        scen = []
        for i, st in enumerate(uniq, 1):
            tg = [{"ev": "Target", "f": f, "orig": [["o", f, j] for j in range(1, 5)], "split": split[f], "rwpages": []} for f in ("f1", "f2")]
            scen.append((i, tg + st))
        cfgp = tlc.make_cfg("Trace_Api", {"Props": props, "MaxPatch": "3"}, "Trace_Api_ev")
        tv = tlc.validate_traces("Trace_Api", cfgp, scen, WORK, "trace_ev_" + tag, timeout=1200)
        return len(uniq), len(tv["accepted"]), tv
    n, acc, tv = emitted(None, "base")
    good = n > 200 and acc == n
    print("  design (all deviations off): %d distinct streams, %d accepted %s" % (n, acc, "ok" if good else "UNEXPECTED"))
    if not good:
        bad = next(s_ for s_ in tv["ids"] if s_ not in tv["accepted"])
        print("    first rejected stream stops at", tv["progress"][bad])
    ok = ok and good
    for over in ({"DropOrder": '"forward"'}, {"FlushEntry": "FALSE"}, {"UnmapOnDrop": "FALSE"}):
        n, acc, tv = emitted(over, "dev")
        good = n > 50 and acc < n
        print("  design with %-28s: %d streams, %d accepted, %d rejected %s" % (over, n, acc, n - acc, "ok" if good else "UNEXPECTED"))
        ok = ok and good
    print("== trace corruption: TLC must reject")
    vlib.build_harness()
    hists, gr = gen_behaviours("MC_LifecycleApi_q")
    hists = [h for h in hists if sum(1 for x in h if x["act"] == "InstallOk") == 2 and any(x["act"] == "Drop" for x in h)][:6]
    scen = [hist_to_scenario(h, i, "rust", 2, diff=False) for i, h in enumerate(hists, 1)]
    groups, order, _ = vlib.run_harness("lifecycle", scen, "selftest_lifecycle")
    for name, prop, evs, want_accept in corrupt_traces(groups):
        cfgp = tlc.make_cfg("Trace_Api", {"Props": '{"%s", "ALL"}' % prop}, "Trace_Api_selftest")
        tv = tlc.validate_traces("Trace_Api", cfgp, [(1, evs)], WORK, "trace_selftest", timeout=600)
        accepted = 1 in tv["accepted"]
        good = accepted == want_accept
        print("  %-75s %s -> %s %s" % (name, prop, "accepted" if accepted else "rejected at %s" % (tv["progress"][1],), "ok" if good else "UNEXPECTED"))
        ok = ok and good
    # the allocator's step-by-step specification
    import copy
    wsc = [{"id": 1, "arch": "a64", "src": 0x7ff612347800, "free_blocks": [-2049, -2048, 5]},
           {"id": 2, "arch": "a64", "src": 0x7ff612347800, "free_blocks": []}]
    wg, _, _ = vlib.run_harness("winsim", wsc, "selftest_winsim")
    base, exh = wg[1], wg[2]

    def without(evs, pred):
        k = next(i for i, e in enumerate(evs) if pred(e))
        return evs[:k] + evs[k + 1:]

    def changed(evs, pred, **kw):
        out = copy.deepcopy(evs)
        e = next(x for x in out if pred(x))
        e.update(kw)
        return out
    cases = [("allocator: unmodified", base, True), ("allocator: unmodified (window exhausted)", exh, True),
             ("allocator: a rejected block is not given back", without(base, lambda e: e["ev"] == "Release"), False),
             ("allocator: the returned block is not the granted one", changed(base, lambda e: e["ev"] == "Result", addr=[0, 0, 1, 0, 0, 0, 0, 0]), False),
             ("allocator: a hint below the window", changed(base, lambda e: e["ev"] == "Try", hint=[0, 0x78, 0x34, 0x02, 0xf6, 0x7f, 0, 0]), False),
             # giving up early is within the property (a panic with nothing held and the function untouched): accepted
             ("allocator: gives up before the window is exhausted", changed(exh, lambda e: e["ev"] == "Result", tries=exh[-1]["tries"] - 1), True),
             ("allocator: panics while a block is still held", changed(exh, lambda e: e["ev"] == "Result", held=1), False),
             ("allocator: an out-of-reach block accepted", [e for e in base if e["ev"] in ("AllocBegin",)] + [next(e for e in base if e["ev"] == "Try")]
              + [dict(next(e for e in base if e["ev"] == "Result"), addr=next(e for e in base if e["ev"] == "Try")["ret"])], False)]
    for name, evs, want_accept in cases:
        tv = tlc.validate_traces("Trace_Alloc", "Trace_Alloc", [(1, evs)], WORK, "trace_selftest_alloc", timeout=600)
        accepted = 1 in tv["accepted"]
        good = accepted == want_accept
        print("  %-75s C11 -> %s %s" % (name, "accepted" if accepted else "rejected at %s" % (tv["progress"][1],), "ok" if good else "UNEXPECTED"))
        ok = ok and good
    # the platform discipline (Trace_Flush): page protections, flush, execute mode on a recorded macOS run
    psc = [{"id": 1, "variant": "macos-a64", "off": 4088, "installs": ["jump"], "fake": 0x7f1234567000, "near_fake": False}]
    pg, _, _ = vlib.run_harness("platsim", psc, "selftest_platsim")
    pbase = pg[1]

    def pchanged(evs, pred, **kw):
        out = copy.deepcopy(evs)
        e = next(x for x in out if pred(x))
        for k, v in kw.items():
            if isinstance(v, dict):
                e[k].update(v)
            else:
                e[k] = v
        return out
    pcases = [("platform: unmodified", pbase, "C01", True), ("platform: unmodified", pbase, "C17", True),
              ("platform: mach_vm_protect covers 8 bytes of a 12-byte patch that ends on the next page",
               pchanged(pbase, lambda e: e["ev"] == "POs" and e["call"] == "mach_vm_protect" and e["x"]["prot"] & 2, len=8), "C01", False),
              ("platform: the trampoline's instruction-cache request is missing",
               without(pbase, lambda e: e["ev"] == "PFlush" and e["off"] >= 8192), "C17", False),
              ("platform: the thread stays in JIT write mode",
               [dict(e, x={"enabled": 0}) if e["ev"] == "POs" and e["call"] == "jit_write_protect" else e for e in pbase], "C01", False)]
    for name, evs, prop, want_accept in pcases:
        cfgp = tlc.make_cfg("Trace_Flush", {"Props": '{"%s", "ALL"}' % prop}, "Trace_Flush_selftest_" + prop)
        tv = tlc.validate_traces("Trace_Flush", cfgp, [(1, evs)], WORK, "trace_selftest_flush", timeout=600)
        accepted = 1 in tv["accepted"]
        good = accepted == want_accept
        print("  %-88s %s -> %s %s" % (name, prop, "accepted" if accepted else "rejected at %s" % (tv["progress"][1],), "ok" if good else "UNEXPECTED"))
        ok = ok and good
    print("selftest:", "PASS" if ok else "FAIL")
    return 0 if ok else 1


def do_setup():
    os.makedirs(WORK, exist_ok=True)
    vlib.build_harness()
    out = os.path.join(WORK, "selfcheck.ndjson")
    import subprocess
    p = subprocess.run([vlib.HARNESS_BIN, "selfcheck", out], stdout=subprocess.PIPE, stderr=subprocess.STDOUT, text=True)
    print(p.stdout.strip())
    if p.returncode != 0:
        print("setup: interposition self-check failed")
        return 2
    r = tlc.check("MC_Lifecycle", "MC_Steps_q", workers=4, timeout=600)
    print("setup: TLC ok (%d states)" % r["distinct"])
    return 0


def do_replay(path, tier):
    """replay file of a violation -> the scenario it names is run again (the owning check generates its scenarios
    deterministically from VERIF_SEED, so the check is run again and its findings are compared by key): exit 1 and the VIOLATION
    line if the same key is found again, exit 0 if not"""
    import subprocess
    if not path or not os.path.exists(path):
        print("replay: no such file %s" % path)
        return 2
    d = json.load(open(path))
    prop, key = d.get("property"), d.get("key")
    if prop not in CHECKS:
        print("replay: file names no known property")
        return 2
    print("replay: %s  key: %s" % (prop, key))
    p = subprocess.run([sys.executable, os.path.abspath(__file__), prop, "--tier", tier], stdout=subprocess.PIPE, stderr=subprocess.STDOUT, text=True)
    lines = p.stdout.splitlines()
    for i, l in enumerate(lines):
        if l.strip() == "key: %s" % key and i > 0 and lines[i - 1].startswith("VIOLATION"):
            print(lines[i - 1])
            print(l)
            return 1
    if p.returncode == 2:
        print(p.stdout[-2000:])
        return 2
    print("replay: not reproduced on the current tree (%d other finding(s))" % sum(1 for l in lines if l.startswith("VIOLATION")))
    return 0


def main():
    os.makedirs(WORK, exist_ok=True)
    ap = argparse.ArgumentParser()
    ap.add_argument("what")
    ap.add_argument("path", nargs="?")
    ap.add_argument("--tier", default=os.environ.get("VERIF_TIER", "quick"))
    a = ap.parse_args()
    try:
        if a.what == "setup":
            return do_setup()
        if a.what == "selftest":
            return do_selftest()
        if a.what == "replay":
            return do_replay(a.path, a.tier)
        if a.what in CHECKS:
            return CHECKS[a.what](a.what, a.tier)
        print("unknown check %s" % a.what)
        return 2
    except ToolError as e:
        print("TOOL-ERROR: %s" % e)
        return hung_verdict(a.what)
    except Exception:
        traceback.print_exc()
        return hung_verdict(a.what)


def hung_verdict(prop):
    """the analysis could not be completed; if that is because scenarios HUNG on the real library (their alarm went off),
    the hang itself is the finding"""
    if prop in CHECKS and vlib.HUNG_RUNS:
        path = os.path.join(vlib.REPLAYS, "%s_hung.json" % prop)
        os.makedirs(vlib.REPLAYS, exist_ok=True)
        json.dump({"property": prop, "key": "scenarios hung", "runs": vlib.HUNG_RUNS}, open(path, "w"), indent=1)
        print("VIOLATION property=%s replay=%s" % (prop, path))
        print("  key: %s scenarios never finished (alarm) in driver runs %s" % (prop, [r[1] for r in vlib.HUNG_RUNS]))
        return 1
    return 2


if __name__ == "__main__":
    sys.exit(main())
