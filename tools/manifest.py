#!/usr/bin/env python3
"""Regenerates /verif/MANIFEST.json from the table below (keeps it valid at all times)."""
import json, os, sys
VERIF = os.path.dirname(os.path.dirname(os.path.abspath(__file__)))
props = [json.loads(l) for l in open(os.path.join(VERIF, "properties.jsonl"))]

TB = "TLC; the TLA+ modules under /verif/spec; the harness's observation code (interposed mmap/munmap/mprotect/__clear_cache, memory watch, child-process runner); Linux kernel behaviour"

CLAIMED = {
 "C13": ("model_checking", "Scratch as a formula over the ISA models: recorded entry/trampoline bytes of short- and long-form redirections (native x86-64 placements; simulated arm64/arm emitters) executed by TLC, only rax/r10/r11 (x9-x17; r12) may be written; assembly caller/fake probes with random register files and Rust-level 14-argument / large-struct / pair-return fakes validated by TLC (Trace_Regs).", "5 C13",
         "trace validation of recorded machine code on ISA models + register-file probes validated by TLC"),
 "C14": ("model_checking", "MC_Async: every sequence of New/Fake/Await/Drop over three sibling async functions (two sharing an output type) with LastFakeWins / FakedOnlyWhileAlive; each sequence replayed under a poll-counting executor (same and other thread) and validated by TLC (Trace_Async); plus fixed shapes (method, unit, 256-byte output, by-reference parameter) and the wrong-output-type refusal.", "5 C14",
         "TLC exhaustive enumeration + spec->impl replay + trace validation"),
 "C08": ("model_checking", "MC_Arms: the reference meaning FakeCall(opts) explored over every option set, script and N; every arm of the macro is extracted from the source at check time, instantiated (rustc decides 'compiles') and driven through every script of <=3/4 calls x N in 0..2 in child processes; per-call outcome, side-effect cell, returns-evaluation count and exit verdict validated by TLC against FakeCall (Trace_Arms).", "5 C08",
         "TLC-checked reference semantics + per-arm generated instantiations validated by TLC"),
 "C04": ("model_checking", "MC_Lock: all interleavings of 3 threads x {injector, preventer} x {drop, panic} with Mutex / PrevSeesOrig / OwnFakes / FreeMeansOrig and hand-over liveness under weak fairness; TLC-generated schedules executed in lock-step on real threads (blocked actions must not complete, enabled ones must); free-running perturbed threads validated by TLC (Trace_Lock); the guard's state read at every OS call of install/drop (Trace_Api).", "5 C04",
         "TLC exhaustive model check (safety+liveness) + lock-step schedule replay + trace validation"),
 "C09": ("model_checking", "gate specification = structural equality of type records; MC_Sig checks over the generated family that text equality decides it; every ordered pair x every macro form is a real installation whose verdict, message class and untouched-on-refusal are validated by TLC (Trace_Sig).", "5 C09",
         "TLC-checked gate specification + exhaustive pair execution validated by TLC"),
 "C10": ("model_checking", "boolean gate specification (return type exactly bool) over a family of return types incl. ones ending in '-> bool'; real installations validated by TLC; stub bytes executed on X64.tla (ret with rax = value, only rax written) and compared with the CPU's answer at straddling / low / high placements.", "5 C10",
         "TLC-checked gate specification + trace validation of gate verdicts and stub machine code"),
 "C15": ("model_checking", "the repository's arm64 sources compiled on the host against a simulated memory; TLC decodes and executes the emitted entry/trampoline bytes on A64.tla: B / ADRP+ADD+BR reaches exactly the trampoline, MOVZ/MOVK x3 + BR builds exactly the fake address, only x9..x17 written, refused => entry untouched; chunk-exhaustive and edge-exhaustive case families.", "5 C15",
         "trace validation of emitted machine code on a TLA+ ISA model (simulated architecture)"),
 "C16": ("model_checking", "patch_arm.rs compiled on the host against a simulated memory; TLC executes the 12 entry bytes on A32T32.tla (PC+8 / Align(PC+4,4) literal addressing, BX interworking) for A32, T32@0mod4, T32@2mod4 x ARM/Thumb fakes: the loaded word is the fake incl. Thumb bit, saved range = written range, no callee-saved register written.", "5 C16",
         "trace validation of emitted machine code on a TLA+ ISA model (simulated architecture)"),
 "C01": ("model_checking", "MC_Geom: every placement (function incl. page-straddling entries, trampoline page, fake) of a scaled address space executed on the model; on the real library a lattice of placements (rel32 boundary +/-6, window extremes, low/high addresses, page offsets 4084..4095) + seeded random is installed in child processes, and TLC executes the recorded entry/trampoline bytes on X64.tla (64-bit arithmetic on byte sequences) and compares with the CPU's answer; targets with unusual prologues (endbr64, forwarding thunks); the encoder arithmetic for all from<2^47, to<2^63 by Apalache (Apa_Encoder).", "5 C01",
         "TLC model check of scaled geometry + trace validation of recorded machine code on an ISA model"),
 "C05": ("model_checking", "panic at every enabled point of the lifecycle model (user code, fake rejecting/over-called and not caught, refused installation, mmap exhaustion, mprotect failure, verifier at exit) with NoAbort / Reusable / IdleClean / Restored as invariants; every behaviour replayed with real panics and injected OS faults in child processes, chained over consecutive lifetimes, followed by a fresh thread; traces validated by TLC (Trace_Api, Props={C05}).", "5 C05",
         "TLC exhaustive model check + fault-injecting replay + trace validation"),
 "C06": ("model_checking", "MC_Times: all interleavings of concurrent callers against the atomic counter; sequential behaviours replayed on real fake! fakes; concurrent rounds (up to 16 threads) recorded as CallStart/CallEnd and linearised by TLC (Trace_Times); tight-loop bursts; lifetimes on many threads built through one shared fake! line; inductive invariant for every N by Apalache (Apa_Counter).", "5 C06",
         "TLC exhaustive model check + replay + linearisability check of recorded concurrent traces by TLC"),
 "C07": ("model_checking", "FreshCount as an action property of the lifecycle model over >=2 lifetimes evaluating the same site; behaviours replayed with the model's site mapped to one real fake! expansion site reused across lifetimes.", "5 C07",
         "TLC model check + spec->impl replay over consecutive lifetimes"),
 "C11": ("model_checking", "MC_Alloc: every target address, window occupancy and kernel answer in a scaled address space (InReach, NoLeftover, termination); real allocator driven through an interposed mmap policy over layouts incl. both window extremes and targets below 128 MiB; Mmap/Munmap traces validated by TLC with 64-bit byte arithmetic.", "5 C11",
         "TLC exhaustive model check + policy-driven replay + trace validation"),
 "C02": ("model_checking", "Injectorpp.tla explored exhaustively by TLC (every install history, step order and exit path inside the bounds); every maximal API-level behaviour of the model is replayed on the real library and the recorded OS-level trace is validated by TLC against Trace_Api (Restored / LatestWins).", "5 C02",
         "TLC exhaustive model check + spec->impl replay + impl->spec trace validation"),
 "C03": ("model_checking", "OnlyNamed / write-set constraints checked in every state of the model; on the real library every write to watched memory and a byte diff of all r-x mappings are fed to TLC as Write/Diff events (Trace_Api, Props={C03}).", "5 C03",
         "TLC exhaustive model check + trace validation of memory diffs"),
 "C12": ("model_checking", "NoLeak / FreeOnce over all histories in the model; interposed Mmap/Munmap events of the replayed behaviours validated by TLC (every accepted trampoline unmapped exactly once, nothing foreign).", "5 C12",
         "TLC exhaustive model check + trace validation of mmap/munmap events"),
 "C17": ("model_checking", "dirty-set / flush discipline as an invariant over all step orders (MC_Steps); interposed __clear_cache calls and memory diffs of the real runs validated by TLC (no dirty byte at any return to the user; entry written only after its trampoline is flushed).", "5 C17",
         "TLC exhaustive model check + trace validation of write/flush events"),
}

def main():
    checks = []
    for p in props:
        pid = p["id"]
        if pid in CLAIMED:
            cat, text, ref, tech = CLAIMED[pid]
            checks.append({
                "property_id": pid,
                "quick_cmd": "python3 tools/check.py %s --tier quick" % pid,
                "thorough_cmd": "python3 tools/check.py %s --tier thorough" % pid,
                "evidence_file": "/verif/evidence/%s.json" % pid,
                "replay_cmd_template": "python3 tools/check.py replay {path}",
                "engine": "tlc+harness",
                "level_claimed": {"category": cat, "text": text, "design_ref": "DESIGN.md section " + ref},
                "level_note": TB,
                "technique": tech,
            })
    na = [{"property_id": p["id"], "reason": "check not built yet (work in progress; see DESIGN.md section 13)"}
          for p in props if p["id"] not in CLAIMED]
    m = {"version": 1,
         "setup_cmd": "python3 tools/check.py setup",
         "hooks": {"guard": "injectorpp_verif",
                   "enable": "rustflags --cfg injectorpp_verif in /verif/harness/.cargo/config.toml (the harness crate has a path dependency on /repo)",
                   "baseline_off_cmd": "cd /repo && cargo test --workspace --no-fail-fast --offline --tests",
                   "source_commits": ["dcff7f7"],
                   "add_only": True},
         "engines": [{"name": "tlc+harness", "path": "/verif/tools/check.py", "serves_properties": sorted(CLAIMED),
                      "kind_free_text": "TLA+ specification (spec/*.tla) model-checked by TLC; Rust conformance harness (harness/) replays TLC behaviours on the real library and records traces that TLC validates against the specification"}],
         "checks": checks,
         "not_applicable": na,
         "notes": "see DESIGN.md (section 5: what each check does; section 6: eleven findings, all fixed by ten fix: commits; section 9: seeded-defect study); python3 tools/check.py selftest runs the deviation switches, the two-level consistency check and the trace corruptions; known findings in KNOWN_FINDINGS.jsonl (all fixed)"}
    json.dump(m, open(os.path.join(VERIF, "MANIFEST.json"), "w"), indent=1)
    print("claimed:", sorted(CLAIMED), "not yet:", [x["property_id"] for x in na])

if __name__ == "__main__":
    main()
