#!/bin/sh
# ownmut.sh <patch> <prop>...: apply a hand-made mutation in the isolated copy, run the repository's suite and the quick checks
# named; prints suite result and the number of VIOLATION / TOOL-ERROR lines per check
ROOT=${SV_ROOT:-/tmp/sv2}
P=$1; shift
cd /verif && SV_ROOT=$ROOT tools/seediso.sh >/dev/null
git -C $ROOT/repo apply $P || { echo "does not apply"; exit 2; }
t=$(cd $ROOT/repo && cargo test --workspace --no-fail-fast --offline --tests 2>&1 | grep -E "^test result" | awk '{p+=$4; f+=$6} END {print p"/"f}')
echo "suite(pass/fail)=$t"
for p in "$@"; do
  o=$(cd $ROOT/verif && python3 tools/check.py $p --tier quick 2>&1)
  echo "$p violations=$(echo "$o" | grep -c '^VIOLATION') toolerr=$(echo "$o" | grep -c 'TOOL-ERROR') $(echo "$o" | grep 'key:' | head -1 | cut -c1-160)"
done
git -C $ROOT/repo reset -q --hard
