#!/usr/bin/env python3
"""seedtest.py <ID> [<worktree>] [--checks C02,C05]: confirm a seeded defect produced by a sub-agent and run
our checks against it.  (1) in the agent's scratch worktree: suite passes with the change, the
demonstration fails with it and passes without it; (2) apply the patch to /repo, run the quick
checks, undo it; (3) keep patch + demo + meta.json under /verif/seeded/<ID>/; (4) remove the worktree."""
import json, os, shutil, subprocess, sys, time

VERIF = os.path.dirname(os.path.dirname(os.path.abspath(__file__)))


def sh(cmd, cwd=None, timeout=3600):
    p = subprocess.run(cmd, shell=True, cwd=cwd, stdout=subprocess.PIPE, stderr=subprocess.STDOUT, text=True, timeout=timeout)
    return p.returncode, p.stdout


def suite_counts(out):
    p = f = 0
    for line in out.splitlines():
        if line.startswith("test result:"):
            parts = line.split()
            p += int(parts[3])
            f += int(parts[5])
    return p, f


def main():
    sid = sys.argv[1]
    name = sid
    wt = "/tmp/wt_" + sid
    checks = None
    root = None        # isolated copy prepared by tools/seediso.sh (repo + verif), else /repo and /verif themselves
    args = sys.argv[2:]
    while args:
        a = args.pop(0)
        if a == "--checks":
            checks = args.pop(0).split(",")
        elif a == "--name":
            name = args.pop(0)
        elif a == "--root":
            root = args.pop(0)
        else:
            wt = a
    prop = sid[:3]
    checks = checks or [prop]
    out = os.path.join(wt, "OUT")
    dest = os.path.join(VERIF, "seeded", name)
    os.makedirs(dest, exist_ok=True)
    for fn in os.listdir(out):
        src = os.path.join(out, fn)
        if os.path.isdir(src):
            shutil.copytree(src, os.path.join(dest, fn), dirs_exist_ok=True)
        elif fn.endswith((".diff", ".rs", ".md", ".sh", ".txt")):
            shutil.copy(src, os.path.join(dest, fn))
    meta = {"id": name, "property": prop, "confirmed": {}, "checks": {}, "at": time.strftime("%Y-%m-%dT%H:%M:%S")}
    # the change under test is exactly OUT/patch.diff (git stash is shared by all worktrees of a repository, so the
    # working tree an agent leaves behind is not trusted): reset src, apply the patch
    patch = os.path.join(dest, "patch.diff")
    sh("git checkout -- src", cwd=wt)
    rc0, o0 = sh("git apply %s" % patch, cwd=wt)
    meta["confirmed"]["patch_applies_to_worktree"] = rc0 == 0
    demo = [f for f in os.listdir(os.path.join(wt, "tests")) if f.startswith("seeded_") and f.endswith(".rs")]
    demo_name = demo[0][:-3] if demo else None
    ran = []
    if demo_name:
        # demo with the change
        rc1, o1 = sh("cargo test --offline --test %s 2>&1 | tail -30" % demo_name, cwd=wt)
        p1, f1 = suite_counts(o1)
        meta["confirmed"]["demo_with_change"] = {"passed": p1, "failed": f1, "fails": f1 > 0 or "FAILED" in o1 or "error" in o1}
        ran.append("cargo test --offline --test %s   (with change)" % demo_name)
        # suite with the change (demo moved away)
        shutil.move(os.path.join(wt, "tests", demo_name + ".rs"), os.path.join(wt, demo_name + ".rs.away"))
        rc2, o2 = sh("cargo test --workspace --no-fail-fast --offline --tests 2>&1", cwd=wt)
        p2, f2 = suite_counts(o2)
        meta["confirmed"]["suite_with_change"] = {"passed": p2, "failed": f2}
        ran.append("cargo test --workspace --offline --tests   (with change, demo moved away)")
        shutil.move(os.path.join(wt, demo_name + ".rs.away"), os.path.join(wt, "tests", demo_name + ".rs"))
        # demo without the change
        sh("git apply -R %s" % patch, cwd=wt)
        rc3, o3 = sh("cargo test --offline --test %s 2>&1 | tail -30" % demo_name, cwd=wt)
        p3, f3 = suite_counts(o3)
        meta["confirmed"]["demo_without_change"] = {"passed": p3, "failed": f3}
        ran.append("git apply -R patch.diff; cargo test --offline --test %s   (without change)" % demo_name)
        sh("git apply %s" % patch, cwd=wt)
    ok = (meta["confirmed"].get("suite_with_change", {}).get("passed") == 71 and meta["confirmed"]["suite_with_change"]["failed"] == 0
          and meta["confirmed"]["demo_with_change"]["fails"] and meta["confirmed"]["demo_without_change"]["failed"] == 0
          and meta["confirmed"]["demo_without_change"]["passed"] > 0)
    meta["confirmed"]["all"] = ok
    # our checks against it
    repo = os.path.join(root, "repo") if root else "/repo"
    vdir = os.path.join(root, "verif") if root else VERIF
    rc, o = sh("git -C %s apply --check %s" % (repo, os.path.join(dest, "patch.diff")))
    if rc != 0:
        meta["checks"]["apply"] = "patch does not apply to /repo HEAD: " + o[-300:]
    else:
        sh("git -C %s apply %s" % (repo, os.path.join(dest, "patch.diff")))
        try:
            for c in checks:
                t0 = time.time()
                rc, o = sh("python3 tools/check.py %s --tier quick" % c, cwd=vdir, timeout=3600)
                viol = [l for l in o.splitlines() if l.startswith("VIOLATION")]
                meta["checks"][c] = {"exit": rc, "violations": len(viol), "first": (viol[0] if viol else ""),
                                     "keys": [l.strip() for l in o.splitlines() if l.strip().startswith("key:")][:3],
                                     "wall_s": round(time.time() - t0, 1), "tail": o[-300:] if rc == 2 else ""}
                ran.append("git -C /repo apply patch.diff; python3 tools/check.py %s --tier quick; git -C /repo checkout -- ." % c)
        finally:
            sh("git -C %s reset -q --hard HEAD" % repo)
    meta["ran"] = ran
    notes = os.path.join(dest, "notes.md")
    meta["needs"] = ""
    if os.path.exists(notes):
        meta["notes_file"] = "notes.md"
    json.dump(meta, open(os.path.join(dest, "meta.json"), "w"), indent=1)
    print(json.dumps(meta, indent=1))
    if "--keep" not in sys.argv:
        sh("git -C /repo worktree remove --force %s" % wt)
        shutil.rmtree(wt, ignore_errors=True)


if __name__ == "__main__":
    main()
