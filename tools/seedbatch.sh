#!/bin/sh
# seedbatch.sh <ID>...: run each seed blind against the isolated copy (/tmp/sv), sequentially.
cd /verif
for id in "$@"; do
  prop=$(echo $id | cut -c1-3)
  tools/seediso.sh >/dev/null
  python3 tools/seedtest.py $id --checks $prop --root ${SV_ROOT:-/tmp/sv} > .work/seed_$id.log 2>&1
  echo "$id done: $(python3 -c "import json;m=json.load(open('seeded/$id/meta.json'));print(m['confirmed'].get('all'), {k:(v.get('exit'),v.get('violations'),v.get('keys')) if isinstance(v,dict) else v for k,v in m['checks'].items()})" 2>&1)"
done
