#!/bin/sh
# applies each property-preserving refactor under seeded/benign to the isolated copy and runs every quick check:
# none may report a violation or a tool error
ROOT=${SV_ROOT:-/tmp/sv}
cd /verif && tools/seediso.sh >/dev/null
DIR=${1:-/verif/seeded/benign}
for d in $DIR/*.diff; do
  n=$(basename $d .diff)
  git -C $ROOT/repo apply $d || { echo "$n: does not apply"; continue; }
  t=$(cd $ROOT/repo && cargo test --workspace --no-fail-fast --offline --tests 2>&1 | grep -E "^test result" | awk '{p+=$4; f+=$6} END {print p"/"f}')
  echo "== $n suite(pass/fail)=$t"
  (cd $ROOT/verif && tools/runall.sh quick | grep -v "rc=0 " )
  git -C $ROOT/repo reset -q --hard HEAD
done
echo BENIGN-DONE
