#!/bin/sh
# Prepares/refreshes an isolated copy (/tmp/sv/repo = worktree of /repo HEAD, /tmp/sv/verif = copy of /verif with
# every "/repo" path rewritten) so that seeded defects can be applied and checked without touching /repo while
# other checks are running against it.  Scratch: remove with `tools/seediso.sh clean`.
set -e
ROOT=${SV_ROOT:-/tmp/sv}
if [ "$1" = "clean" ]; then
  git -C /repo worktree remove --force $ROOT/repo 2>/dev/null || true
  rm -rf $ROOT
  exit 0
fi
mkdir -p $ROOT
if [ ! -d $ROOT/repo ]; then
  git -C /repo worktree add --detach $ROOT/repo HEAD >/dev/null
else
  git -C $ROOT/repo reset -q --hard && git -C $ROOT/repo checkout -q --detach $(git -C /repo rev-parse HEAD)
fi
rsync -a --delete --exclude .git --exclude .work --exclude harness/target --exclude harness_sim/target --exclude harness_arms/target --exclude evidence /verif/ $ROOT/verif/
mkdir -p $ROOT/verif/evidence
for f in tools/arms.py tools/vlib.py harness/Cargo.toml harness_sim/build.rs; do
  sed -i "s#\"/repo#\"$ROOT/repo#g; s#path = \"/repo\"#path = \"$ROOT/repo\"#g" $ROOT/verif/$f
done
echo ready
