"""Shared machinery of the checks: harness build/run, findings, evidence, reporting."""
import json, os, subprocess, sys, time, hashlib, random

sys.path.insert(0, os.path.dirname(os.path.abspath(__file__)))
import tlc  # noqa: E402
from tlc import ToolError, VERIF, WORK, SPEC  # noqa: E402

HARNESS_DIR = os.path.join(VERIF, "harness")
HARNESS_BIN = os.path.join(HARNESS_DIR, "target", "debug", "verif-harness")
# simulated architectures / platforms: a crate of its own (textual builds of the repository's sources against shims)
SIM_DIR = os.path.join(VERIF, "harness_sim")
SIM_BIN = os.path.join(SIM_DIR, "target", "debug", "verif-harness-sim")
SIM_DRIVERS = ("sim", "winsim", "platsim")
SIM_BUILD_ERROR = None
NO_HOOK = False


class SimUnavailable(ToolError):
    """the simulated builds cannot follow the library's current sources (they no longer compile against the shims)"""
REPLAYS = os.path.join(WORK, "replays")
EVIDENCE = os.path.join(VERIF, "evidence")
FINDINGS = os.path.join(VERIF, "KNOWN_FINDINGS.jsonl")
REPO = "/repo"


def seed():
    try:
        return int(os.environ.get("VERIF_SEED", "1"))
    except ValueError:
        return 1


def cargo_env():
    env = dict(os.environ)
    env["CARGO_NET_OFFLINE"] = "true"
    return env


def build_harness(timeout=900):
    """(Re)build the harness against /repo's current working tree. A build failure is a tool
    error (exit 2): the harness no longer fits the library's API."""
    lock = os.path.join(HARNESS_DIR, "Cargo.lock")
    if not os.path.exists(lock):
        import shutil
        shutil.copy(os.path.join(REPO, "Cargo.lock"), lock)
    t0 = time.time()
    global NO_HOOK
    p = subprocess.run(["cargo", "build", "--offline", "--quiet"], cwd=HARNESS_DIR, env=cargo_env(),
                       stdout=subprocess.PIPE, stderr=subprocess.STDOUT, text=True, timeout=timeout)
    NO_HOOK = False
    if p.returncode != 0:
        # the hook in /repo names the lock's internals; if a change to the library makes the HOOK uncompilable the harness
        # is built without it (lock state reported as unknown, accepted by the specifications wherever "held" is asked for)
        env = cargo_env()
        env["RUSTFLAGS"] = "--cfg verif_nohook --check-cfg cfg(verif_nohook) --check-cfg cfg(injectorpp_verif)"
        q = subprocess.run(["cargo", "build", "--offline", "--quiet"], cwd=HARNESS_DIR, env=env,
                           stdout=subprocess.PIPE, stderr=subprocess.STDOUT, text=True, timeout=timeout)
        if q.returncode != 0:
            raise ToolError("harness build failed:\n" + p.stdout[-4000:])
        NO_HOOK = True
        print("NOTE: the verification hook in /repo does not compile any more; the harness was built without it "
              "(lock state = unknown in the recorded traces)")
    global SIM_BUILD_ERROR
    slock = os.path.join(SIM_DIR, "Cargo.lock")
    if not os.path.exists(slock):
        import shutil
        shutil.copy(os.path.join(REPO, "Cargo.lock"), slock)
    # one binary per simulated driver: what one textual build cannot follow leaves the other drivers available
    for prof in ("debug", "nodebug"):
        for d in SIM_DRIVERS:
            try:
                os.remove(os.path.join(SIM_DIR, "target", prof, "v" + d))
            except OSError:
                pass
    q = subprocess.run(["cargo", "build", "--offline", "--quiet", "--bins", "--keep-going"], cwd=SIM_DIR, env=cargo_env(),
                       stdout=subprocess.PIPE, stderr=subprocess.STDOUT, text=True, timeout=timeout)
    SIM_BUILD_ERROR = {d: q.stdout[-3000:] for d in SIM_DRIVERS if not os.path.exists(sim_bin(d))}
    # ... and once more as a release build sees the sources (debug assertions off, wrapping arithmetic)
    global SIM_ND_OK
    subprocess.run(["cargo", "build", "--offline", "--quiet", "--bins", "--keep-going", "--profile", "nodebug"], cwd=SIM_DIR, env=cargo_env(),
                   stdout=subprocess.PIPE, stderr=subprocess.STDOUT, text=True, timeout=timeout)
    SIM_ND_OK = os.path.exists(sim_bin("sim")) and os.path.exists(sim_bin("sim", True))
    return time.time() - t0


SIM_ND_OK = False


def sim_bin(driver, nodebug=False):
    return os.path.join(SIM_DIR, "target", "nodebug" if nodebug else "debug", "v" + driver)


def run_harness(driver, scenarios, name, timeout=1200, env_extra=None, args=None, nodebug=False):
    """Write scenarios (one JSON per line), run the driver, return events grouped by scenario id."""
    os.makedirs(WORK, exist_ok=True)
    script = os.path.join(WORK, name + ".script.ndjson")
    out = os.path.join(WORK, name + ".events.ndjson")
    with open(script, "w") as f:
        for sc in scenarios:
            f.write(json.dumps(sc, separators=(",", ":")) + "\n")
    if os.path.exists(out):
        os.remove(out)
    env = dict(os.environ)
    env["VERIF_SEED"] = str(seed())
    if env_extra:
        env.update(env_extra)
    if driver in SIM_DRIVERS and SIM_BUILD_ERROR and SIM_BUILD_ERROR.get(driver):
        raise SimUnavailable("the simulated build (%s) of the repository's sources failed:\n" % driver + SIM_BUILD_ERROR[driver])
    binary = sim_bin(driver, nodebug) if driver in SIM_DRIVERS else HARNESS_BIN
    try:
        p = subprocess.run([binary, driver, script, out] + (args or []), env=env, stdout=subprocess.PIPE,
                           stderr=subprocess.STDOUT, text=True, timeout=timeout, errors="replace")
    except subprocess.TimeoutExpired:
        raise ToolError("harness driver %s timed out" % driver)
    if p.returncode != 0 and driver in SIM_DRIVERS:
        # the simulated memory is an artefact of the harness: a library that touches target memory directly (not through the
        # functions the simulation replaces) cannot be followed there -- that is not a finding about the library
        raise SimUnavailable("simulated driver %s died (rc=%s): the library touched memory the simulation does not back\n%s" % (driver, p.returncode, p.stdout[-1500:]))
    if p.returncode != 0:
        raise ToolError("harness driver %s failed rc=%s:\n%s" % (driver, p.returncode, p.stdout[-3000:]))
    groups = {}
    order = []
    with open(out) as f:
        for line in f:
            line = line.strip()
            if not line:
                continue
            try:
                e = json.loads(line)
            except json.JSONDecodeError:
                continue  # a line cut short by a crash
            sid = e.get("sc", 0)
            if sid not in groups:
                groups[sid] = []
                order.append(sid)
            if e.get("ev") == "Note" and e.get("what") == "retry-after-alarm":
                # the scenario ran into its alarm once and was started again: what the aborted attempt recorded is dropped
                RETRIED.append((driver, name, sid))
                groups[sid] = []
                continue
            groups[sid].append(e)
    # scenarios the driver did not run because three earlier ones had hung (those three are findings)
    global NOT_RUN
    NOT_RUN = set(sid for sid, evs in groups.items() if any(e.get("ev") == "Note" and e.get("what") == "not-run" for e in evs))
    for sid in NOT_RUN:
        groups.pop(sid)
        order.remove(sid)
    if NOT_RUN:
        hung = sum(1 for evs in groups.values() for e in evs if e.get("ev") == "ChildExit" and e.get("signal") == 14)
        if hung < 3:
            raise ToolError("driver %s skipped scenarios without three hung ones" % driver)
        HUNG_RUNS.append((driver, name, hung, len(NOT_RUN)))
    return groups, order, p.stdout


NOT_RUN = set()
HUNG_RUNS = []
RETRIED = []


# ---------------------------------------------------------------- findings

def load_findings():
    res = []
    if os.path.exists(FINDINGS):
        for line in open(FINDINGS):
            line = line.strip()
            if line and not line.startswith("#"):
                res.append(json.loads(line))
    return res


class Run:
    """One invocation of one property's check."""

    def __init__(self, prop, tier, level="model_checking"):
        self.prop = prop
        self.tier = tier
        self.level = level
        self.t0 = time.time()
        self.states = 0
        self.transitions = 0
        self.traces = 0
        self.samples = []
        self.evaluations = 0
        self.distinct = set()
        self.violations = []      # (key, replay_path)
        self.known_hits = []
        self.assumptions = []
        self.extra = {}
        self.models = []
        self.rule = ""
        self.findings = [f for f in load_findings() if f.get("property") == prop and f.get("status") == "open"]
        os.makedirs(REPLAYS, exist_ok=True)
        os.makedirs(EVIDENCE, exist_ok=True)

    # -- model checking bookkeeping
    def add_model(self, r, required_actions=()):
        self.states += r["distinct"]
        self.transitions += r["generated"]
        self.models.append({"module": os.path.basename(str(r["module"])), "cfg": os.path.basename(str(r["cfg"])),
                            "distinct": r["distinct"], "generated": r["generated"], "depth": r["depth"],
                            "wall_s": round(r["wall"], 1),
                            "actions_covered": {k: v for k, v in sorted(r["coverage"].items())} if r["coverage"] else {}})
        for a in required_actions:
            if r["coverage"] and r["coverage"].get(a, 0) == 0:
                raise ToolError("vacuity guard: action %s never taken in %s/%s" % (a, r["module"], r["cfg"]))

    def add_apalache(self, module, inv, length=0, init=None):
        """an unbounded-integer obligation discharged by Apalache (design level)"""
        r = tlc.apalache(module, inv, length=length, init=init)
        self.extra.setdefault("apalache", []).append({k: r[k] for k in ("module", "inv", "length", "outcome")} | {"wall_s": round(r["wall"], 1)})
        if not r["ok"]:
            path = os.path.join(REPLAYS, "%s_apalache_%s_%s.txt" % (self.prop, module, inv))
            open(path, "w").write(r.get("text", ""))
            self.violations.append(("design:apalache:%s/%s" % (module, inv), path))
        return r["ok"]

    def design_violation(self, r):
        """TLC found a counterexample in the specification itself (not in the code)."""
        path = os.path.join(REPLAYS, "%s_design_%s.txt" % (self.prop, r["violation"]["name"]))
        open(path, "w").write(r.get("trace_text", "") or r["out"][-20000:])
        self.violations.append(("design:" + r["violation"]["name"], path))

    def note_case(self, key):
        self.evaluations += 1
        self.distinct.add(key)

    def sample(self, obj, cap=6):
        if len(self.samples) < cap:
            self.samples.append(obj)

    # -- violations
    def violation(self, key, replay_obj):
        for f in self.findings:
            if f.get("key") == key:
                if key not in [k for k, _ in self.known_hits]:
                    self.known_hits.append((key, f.get("what", "")))
                return
        if key in [k for k, _ in self.violations]:
            return
        h = hashlib.sha1(key.encode()).hexdigest()[:10]
        path = os.path.join(REPLAYS, "%s_%s.json" % (self.prop, h))
        with open(path, "w") as f:
            json.dump({"property": self.prop, "key": key, "replay": replay_obj}, f, indent=1, default=str)
        self.violations.append((key, path))

    def sim_part(self, name, fn):
        """run a part of the check that needs the simulated builds; if they are unavailable the part is skipped, loudly"""
        try:
            fn()
        except SimUnavailable as e:
            print("NOTE: %s: part '%s' skipped -- %s" % (self.prop, name, str(e).splitlines()[0]))
            self.extra.setdefault("sim_parts_skipped", []).append({"part": name, "why": str(e)[-1500:]})

    def finish(self):
        if HUNG_RUNS and not self.violations and not self.known_hits:
            # cannot happen if every trace specification rejects a hung scenario; never report "held" then
            raise ToolError("scenarios hung (%s) but no violation was derived" % (HUNG_RUNS,))
        if NO_HOOK:
            self.extra["hook_unavailable"] = True
        if RETRIED:
            self.extra["scenarios_retried_after_alarm"] = [{"driver": d, "run": n, "scenario": s} for d, n, s in RETRIED]
        if HUNG_RUNS:
            self.extra["hung_runs"] = [{"driver": d, "run": n, "hung": h, "not_run": k} for d, n, h, k in HUNG_RUNS]
        wall = time.time() - self.t0
        cov = {
            "states": max(self.states, 1) if self.level == "model_checking" else self.states,
            "transitions": max(self.transitions, 1) if self.level == "model_checking" else self.transitions,
            "traces_validated_against_impl": self.traces,
            "samples": self.samples[:8] if self.samples else [{"note": "no sample recorded"}],
            "evaluations": max(self.evaluations, 1),
            "distinct_nontrivial": len(self.distinct),
            "rule": self.rule,
            "models": self.models,
            "known_findings_hit": [k for k, _ in self.known_hits],
        }
        cov.update(self.extra)
        ev = {"property_id": self.prop, "tier": self.tier, "seed": seed(), "level": self.level, "coverage": cov,
              "assumptions": self.assumptions, "wall_s": round(wall, 2), "violations": len(self.violations)}
        with open(os.path.join(EVIDENCE, self.prop + ".json"), "w") as f:
            json.dump(ev, f, indent=1, default=str)
        for key, what in self.known_hits:
            print("KNOWN-FINDING: property=%s %s %s" % (self.prop, key, what))
        for key, path in self.violations:
            print("VIOLATION property=%s replay=%s" % (self.prop, path))
            print("  key: %s" % key)
        sys.stdout.flush()
        return 1 if self.violations else 0


def rnd(tag=""):
    return random.Random("%s/%s" % (seed(), tag))
