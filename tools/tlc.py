"""Thin driver around TLC: model checking runs, behaviour generation, trace validation."""
import json, os, re, shutil, subprocess, tempfile, time

VERIF = os.path.dirname(os.path.dirname(os.path.abspath(__file__)))
SPEC = os.path.join(VERIF, "spec")
WORK = os.path.join(VERIF, ".work")
JAR = "/opt/veriftools/tla/tla2tools.jar:/opt/veriftools/tla/CommunityModules-deps.jar"


class ToolError(Exception):
    pass


def _java(args, env_extra=None, timeout=600, cwd=SPEC, java_opts=None):
    env = dict(os.environ)
    if env_extra:
        env.update(env_extra)
    cmd = ["java", "-XX:+UseParallelGC"] + (java_opts or []) + ["-cp", JAR, "tlc2.TLC"] + args
    t0 = time.time()
    try:
        p = subprocess.run(cmd, cwd=cwd, env=env, stdout=subprocess.PIPE, stderr=subprocess.STDOUT,
                           timeout=timeout, text=True, errors="replace")
    except subprocess.TimeoutExpired as e:
        out = e.stdout if isinstance(e.stdout, str) else (e.stdout or b"").decode("utf8", "replace")
        raise ToolError("TLC timed out after %ss: %s\n%s" % (timeout, " ".join(args), out[-2000:]))
    return p.returncode, p.stdout, time.time() - t0


_cov_re = re.compile(r"^<(\w+) line (\d+), col \d+ to line \d+, col \d+ of module (\w+)>: (\d+):(\d+)")


def parse_output(out):
    r = {"generated": 0, "distinct": 0, "depth": 0, "violation": None, "prints": [], "coverage": {},
         "error": None, "trace": []}
    m = re.search(r"(\d+) states generated, (\d+) distinct states found", out)
    if m:
        r["generated"], r["distinct"] = int(m.group(1)), int(m.group(2))
    m = re.search(r"depth of the complete state graph search is (\d+)", out)
    if m:
        r["depth"] = int(m.group(1))
    m = re.search(r"Error: Invariant (\w+) is violated", out)
    if m:
        r["violation"] = {"kind": "invariant", "name": m.group(1)}
    m = re.search(r"Error: Action property (\w+) is violated", out)
    if m:
        r["violation"] = {"kind": "action-property", "name": m.group(1)}
    if re.search(r"Error: Temporal properties were violated", out):
        r["violation"] = {"kind": "temporal", "name": "temporal"}
    if "Error: Deadlock reached" in out:
        r["violation"] = {"kind": "deadlock", "name": "deadlock"}
    if r["violation"] is None:
        m = re.search(r"Error: (.*)", out)
        if m and "violated" not in m.group(1):
            r["error"] = m.group(1)
    for line in out.splitlines():
        if line.startswith("<<\"") or line.startswith("\""):
            r["prints"].append(line)
        m = _cov_re.match(line)
        if m:
            name = m.group(1)
            r["coverage"][name] = r["coverage"].get(name, 0) + int(m.group(5))
    if r["violation"]:
        # keep the counterexample text (states) for the replay file
        i = out.find("The behavior up to this point is")
        if i >= 0:
            r["trace_text"] = out[i:i + 20000]
    return r


class _HeapBudget:
    """TLC processes started in parallel by one check (slices of a long recording) share the machine's memory: the sum of
    their maximum heaps stays below BUDGET_GB, later ones wait."""
    BUDGET_GB = 24

    def __init__(self):
        import threading
        self.cv = threading.Condition()
        self.used = 0

    def acquire(self, gb):
        gb = min(gb, self.BUDGET_GB)
        with self.cv:
            while self.used + gb > self.BUDGET_GB:
                self.cv.wait()
            self.used += gb
        return gb

    def release(self, gb):
        with self.cv:
            self.used -= gb
            self.cv.notify_all()


HEAP = _HeapBudget()


def check(module, cfg, workers=8, timeout=900, coverage=True, depth_first=False, sim=None, name=None,
          env_extra=None, heap="8g"):
    """Run TLC on spec/<module>.tla with spec/<cfg>. Returns parsed result dict."""
    os.makedirs(WORK, exist_ok=True)
    md = tempfile.mkdtemp(prefix="tlc_", dir=WORK)
    args = ["-workers", str(workers), "-noGenerateSpecTE", "-metadir", md, "-cleanup",
            "-config", cfg if cfg.endswith(".cfg") else cfg + ".cfg"]
    if coverage:
        args += ["-coverage", "1"]
    if sim:
        args += ["-simulate", "num=%d" % sim["num"], "-depth", str(sim["depth"])]
        if "seed" in sim:
            args += ["-seed", str(sim["seed"])]
    args.append(module if module.endswith(".tla") else module + ".tla")
    jo = ["-Xmx" + heap, "-Xss1g"]
    if depth_first:
        jo.append("-Dtlc2.tool.queue.IStateQueue=StateDeque")
    held = HEAP.acquire(int(heap.rstrip("g")))
    try:
        rc, out, wall = _java(args, env_extra=env_extra, timeout=timeout, java_opts=jo)
    finally:
        HEAP.release(held)
        shutil.rmtree(md, ignore_errors=True)
    r = parse_output(out)
    r["rc"], r["wall"], r["out"] = rc, wall, out
    r["module"], r["cfg"] = module, cfg
    if r["violation"] is None and (rc != 0 or r["error"]):
        raise ToolError("TLC failed on %s/%s (rc=%s): %s\n%s" % (module, cfg, rc, r["error"], out[-3000:]))
    return r


def make_cfg(base_cfg, overrides, out_name):
    """Copy spec/<base_cfg>.cfg to .work/<out_name>.cfg with `Name = value` lines replaced."""
    src = open(os.path.join(SPEC, base_cfg + ".cfg")).read()
    for k, v in overrides.items():
        src, n = re.subn(r"(?m)^(\s*)%s\s*(=|<-).*$" % re.escape(k), r"\1%s = %s" % (k, v), src)
        if n == 0:
            raise ToolError("constant %s not in %s" % (k, base_cfg))
    os.makedirs(WORK, exist_ok=True)
    path = os.path.join(WORK, out_name + ".cfg")
    open(path, "w").write(src)
    return path


def parse_replay_lines(prints, tag="REPLAY"):
    """Lines of the form <<"TAG", "<json string>">> -> list of decoded JSON values."""
    res = []
    pre = '<<"%s", ' % tag
    for l in prints:
        if l.startswith(pre) and l.endswith(">>"):
            body = l[len(pre):-2]
            res.append(json.loads(json.loads(body)))
    return res


# ---------------------------------------------------------------- trace validation

def validate_traces(trace_module, cfg, scenarios, workdir, name, timeout=900, extra_env=None):
    """scenarios: list of (scenario_id, [event dicts]).  Each scenario is validated
    independently (one TLC initial state per scenario).  Returns dict
    {accepted: set(ids), progress: {id: (matched, total)}, states, transitions, wall}."""
    os.makedirs(workdir, exist_ok=True)
    # very long recordings are validated in slices (the scenarios are independent of one another): a slice holds at most
    # MAX_EVENTS events, slices run four at a time
    MAX_EVENTS = 120000
    total_events = sum(len(evs) for _, evs in scenarios)
    if total_events > MAX_EVENTS and len(scenarios) > 1:
        slices, cur, n_cur = [], [], 0
        for sid, evs in scenarios:
            if cur and n_cur + len(evs) > MAX_EVENTS:
                slices.append(cur)
                cur, n_cur = [], 0
            cur.append((sid, evs))
            n_cur += len(evs)
        if cur:
            slices.append(cur)
        import concurrent.futures
        merged = {"accepted": set(), "progress": {}, "states": 0, "transitions": 0, "wall": 0.0, "ids": [], "raw": {"prints": []}}

        def one(k):
            return validate_traces(trace_module, cfg, slices[k], workdir, "%s_s%d" % (name, k), timeout=timeout, extra_env=extra_env)
        with concurrent.futures.ThreadPoolExecutor(max_workers=4) as ex:
            for r in ex.map(one, range(len(slices))):
                merged["accepted"] |= r["accepted"]
                merged["progress"].update(r["progress"])
                merged["states"] += r["states"]
                merged["transitions"] += r["transitions"]
                merged["wall"] += r["wall"]
                merged["ids"] += r["ids"]
                merged["raw"]["prints"] += r.get("raw", {}).get("prints", [])
        for k in range(len(slices)):
            try:
                os.remove(os.path.join(workdir, "%s_s%d.ndjson" % (name, k)))
            except OSError:
                pass
        return merged
    path = os.path.join(workdir, name + ".ndjson")
    starts, ends, ids = [], [], []
    n = 1  # line 1 is the header
    lines = []
    for sid, evs in scenarios:
        if not evs:
            continue
        starts.append(n + 1)
        for e in evs:
            lines.append(json.dumps(e, separators=(",", ":")))
            n += 1
        ends.append(n)
        ids.append(sid)
    header = {"ev": "Header", "starts": starts, "ends": ends, "n": len(ids)}
    with open(path, "w") as f:
        f.write(json.dumps(header) + "\n")
        for l in lines:
            f.write(l + "\n")
    if not ids:
        return {"accepted": set(), "progress": {}, "states": 0, "transitions": 0, "wall": 0.0, "ids": []}
    env = {"TRACE": path}
    if extra_env:
        env.update(extra_env)
    # the whole trace file is deserialised into one TLA+ value: give the JVM room in proportion
    mb = os.path.getsize(path) / 1e6
    r = check(trace_module, cfg, workers=1, timeout=timeout, coverage=False, depth_first=True, env_extra=env,
              heap="6g" if mb < 25 else ("12g" if mb < 60 else "24g"))
    if r["violation"] is not None and r["violation"]["name"] not in ("TraceDone",):
        # an invariant of the specification failed on an observed execution
        pass
    prog = {}
    acc = set()
    for l in r["prints"]:
        m = re.match(r'<<"PROGRESS", (\d+), (\d+), (\d+)>>', l)
        if m:
            k, reached, total = int(m.group(1)), int(m.group(2)), int(m.group(3))
            sid = ids[k - 1]
            prog[sid] = (reached, total)
            if reached >= total:
                acc.add(sid)
    for sid in ids:
        prog.setdefault(sid, (0, -1))
    return {"accepted": acc, "progress": prog, "states": r["distinct"], "transitions": r["generated"],
            "wall": r["wall"], "ids": ids, "path": path, "raw": r}


# ---------------------------------------------------------------- Apalache (unbounded integers)

def apalache(module, inv, length=0, init=None, cinit="ConstInit", timeout=600):
    """apalache-mc check; returns {"ok": bool, "outcome": str, "wall": s}. A counterexample is ok=False;
    anything else that is not NoError raises ToolError."""
    out_dir = os.path.join(WORK, "apalache")
    os.makedirs(out_dir, exist_ok=True)
    cmd = ["apalache-mc", "check", "--out-dir=" + out_dir, "--cinit=" + cinit, "--inv=" + inv, "--length=%d" % length, "--no-deadlock"]
    if init:
        cmd.append("--init=" + init)
    cmd.append(os.path.join(SPEC, module + ".tla"))
    t0 = time.time()
    try:
        p = subprocess.run(cmd, cwd=out_dir, stdout=subprocess.PIPE, stderr=subprocess.STDOUT, text=True, timeout=timeout)
    except subprocess.TimeoutExpired:
        raise ToolError("apalache timed out on %s/%s" % (module, inv))
    m = re.search(r"The outcome is: (\w+)", p.stdout)
    outcome = m.group(1) if m else "unknown"
    shutil.rmtree(os.path.join(out_dir, module + ".tla"), ignore_errors=True)
    if outcome == "NoError":
        return {"ok": True, "outcome": outcome, "wall": time.time() - t0, "module": module, "inv": inv, "length": length}
    if outcome == "Error" and "invariant" in p.stdout:
        return {"ok": False, "outcome": outcome, "wall": time.time() - t0, "module": module, "inv": inv, "length": length,
                "text": p.stdout[-3000:]}
    raise ToolError("apalache failed on %s/%s: %s" % (module, inv, p.stdout[-1500:]))
