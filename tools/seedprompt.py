#!/usr/bin/env python3
"""seedprompt.py <suffix>: write one sub-agent prompt per property to .work/agents/<ID><suffix>.txt.
A prompt contains ONLY the property's text (from properties.jsonl), the one-line ideas of earlier seeds for that
property (seeded/ideas.json, so that a new seed uses a different mechanism) and the working rules -- nothing about
how the checks work."""
import json, os, sys
VERIF = os.path.dirname(os.path.dirname(os.path.abspath(__file__)))
suffix = sys.argv[1]
ideas = json.load(open(os.path.join(VERIF, "seeded", "ideas.json")))
os.makedirs(os.path.join(VERIF, ".work", "agents"), exist_ok=True)
TEMPLATE = open(os.path.join(VERIF, "tools", "seedprompt.txt")).read()
for line in open(os.path.join(VERIF, "properties.jsonl")):
    p = json.loads(line)
    pid = p["id"]
    prev = [e for e in ideas.get(pid, [])]
    plain = [e for e in prev if e["seed"] == pid][-1:]
    rest = [e for e in prev if e["seed"] != pid]
    lst = "; ".join('(%d) "%s"' % (k + 1, e["idea"].replace("`", "")) for k, e in enumerate(plain + rest))
    others = "; ".join('"%s"' % e["idea"].replace("`", "")[:110] for q, v in sorted(ideas.items()) if q != pid for e in v[-3:])
    lst += '. Mechanisms that were already used for OTHER properties of the same library (avoid these as well, your mechanism should be new): ' + others
    sid = pid + suffix
    text = TEMPLATE.replace("{SID}", sid).replace("{PID}", pid).replace("{TITLE}", p["title"]).replace("{STATEMENT}", p["statement"]) \
        .replace("{QUANT}", p["quantifier"]["text"]).replace("{IDEAS}", lst)
    open(os.path.join(VERIF, ".work", "agents", sid + ".txt"), "w").write(text)
    print(sid)
