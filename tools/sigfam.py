"""Signature families for C09 / C10: one source of truth for (a) the Rust functions the harness
installs for real, (b) the type records TLC judges.  `generate()` (re)writes
harness/src/gen/sig_family.rs only when its content changes."""
import json, os

VERIF = os.path.dirname(os.path.dirname(os.path.abspath(__file__)))
OUT = os.path.join(VERIF, "harness", "src", "gen", "sig_family.rs")


def T(params, ret, abi="Rust", unsafe=False, judged=True, note=""):
    return {"abi": abi, "unsafe": unsafe, "params": params, "ret": ret, "judged": judged, "note": note}


HM = "&std::collections::HashMap<String, Vec<u8>>"
LONGP = [HM] * 7

FAMILY = [
    T(["i32", "&mut i32"], "bool", note="base"),
    T(["i32"], "bool", note="arity-1"),
    T(["i32", "&mut i32", "u8"], "bool", note="arity+1"),
    T(["i64", "&mut i32"], "bool", note="param type"),
    T(["i32", "&i32"], "bool", note="&mut -> &"),
    T(["i32", "*mut i32"], "bool", note="&mut -> *mut"),
    T(["i32", "&mut i32"], "u8", note="return type"),
    T(["i32", "&mut i32"], "()", note="unit return"),
    T(["i32", "&mut i32"], "bool", unsafe=True, note="unsafe"),
    T(["i32", "&mut i32"], "bool", abi="C", note="extern C"),
    T(["i32", "&mut i32"], "bool", abi="C", unsafe=True, note="unsafe extern C"),
    T(["i32", "&mut i32"], "bool", abi="system", unsafe=True, note="unsafe extern system"),
    T(["&mut i32", "i32"], "bool", note="param order"),
    T(["i32", "&mut i32"], "i32", note="return i32"),
    T(["u32", "&mut i32"], "bool", note="signedness"),
    T(["i32", "&mut i64"], "bool", note="pointee"),
    T([], "bool", note="no params"),
    T(["i32", "&mut i32"], "Option<bool>", note="return wrapper"),
    T(["i32", "*const i32"], "bool", note="*const"),
    # distinct types that share their last path segment (v1::Config / v2::Config, io::Error / fmt::Error)
    T(["ns1::Tok"], "bool", note="same type name, module ns1"),
    T(["ns2::Tok"], "bool", note="same type name, module ns2"),
    T([], "ns1::Tok", note="return: same type name, module ns1"),
    T([], "ns2::Tok", note="return: same type name, module ns2"),
    T(["&std::io::Error"], "bool", note="io::Error"),
    T(["&std::fmt::Error"], "bool", note="fmt::Error"),
    # long signatures (type names well beyond 160 / 256 characters) that differ only near the end
    T(LONGP + ["i32"], "bool", note="long, base"),
    T(LONGP + ["i64"], "bool", note="long, differs in the last parameter"),
    T(LONGP + ["i32"], "u8", note="long, differs in the return type"),
    T(LONGP + ["&mut i32"], "bool", note="long, last parameter &mut"),
    T(LONGP + ["&i32"], "bool", note="long, last parameter &"),
    # a long type name made of two-byte characters (an identifier in another script), by value and behind a pointer: wherever a
    # message about it is cut or measured in bytes, one of the two has a character straddling the place
    T(["Wide2"], "bool", note="long non-ASCII type name, by value"),
    T(["*const Wide2"], "bool", note="long non-ASCII type name, *const"),
    T(["&'static str"], "bool", judged=False, note="lifetime spelling 'static"),
    T(["&str"], "bool", judged=False, note="lifetime spelling elided"),
]

DEFAULTS = {"ns1::Tok": "ns1::Tok(0)", "ns2::Tok": "ns2::Tok(0)", "bool": "false", "u8": "0", "()": "()", "i32": "0", "Option<bool>": "None"}
FAKE_RET = {"ns1::Tok": "ns1::Tok(1)", "ns2::Tok": "ns2::Tok(1)", "bool": "true", "u8": "1", "()": "()", "i32": "1", "Option<bool>": "Some(true)"}
ARGS = {HM: "&hm", "Wide2": "mk_wide()", "*const Wide2": "&mk_wide() as *const Wide2", "ns1::Tok": "ns1::Tok(5)", "ns2::Tok": "ns2::Tok(5)", "&std::io::Error": "&std::io::Error::from_raw_os_error(1)",
        "&std::fmt::Error": "&std::fmt::Error", "i32": "1", "&mut i32": "&mut m", "u8": "2", "i64": "3", "&i32": "&r", "*mut i32": "&mut m as *mut i32", "u32": "4",
        "&mut i64": "&mut m64", "*const i32": "&r as *const i32", "&'static str": "\"s\"", "&str": "\"s\""}


def type_str(t, named=False):
    q = ("unsafe " if t["unsafe"] else "") + ("extern \"%s\" " % t["abi"] if t["abi"] != "Rust" else "")
    ps = ", ".join(("p%d: %s" % (i, p)) if named else p for i, p in enumerate(t["params"]))
    r = "" if t["ret"] == "()" else " -> " + t["ret"]
    return "%sfn(%s)%s" % (q, ps, r)


BOOL_FAMILY = [
    # (return type text, tokens TLC sees, is the return type exactly bool, extra qualifiers, params)
    {"ret": "bool", "tokens": ["bool"], "is_bool": True, "q": "", "params": []},
    {"ret": "MyBool", "tokens": ["bool"], "is_bool": True, "q": "", "params": [], "note": "type alias of bool"},
    {"ret": "bool", "tokens": ["bool"], "is_bool": True, "q": "unsafe ", "params": []},
    {"ret": "bool", "tokens": ["bool"], "is_bool": True, "q": "extern \"C\" ", "params": []},
    {"ret": "bool", "tokens": ["bool"], "is_bool": True, "q": "", "params": ["u32", "&str"]},
    {"ret": "fn() -> bool", "tokens": ["fn", "()", "->", "bool"], "is_bool": False, "q": "", "params": []},
    {"ret": "extern \"C\" fn() -> bool", "tokens": ["extern", "C", "fn", "()", "->", "bool"], "is_bool": False, "q": "", "params": []},
    {"ret": "fn(u8) -> fn() -> bool", "tokens": ["fn", "(u8)", "->", "fn", "()", "->", "bool"], "is_bool": False, "q": "", "params": []},
    {"ret": "Option<bool>", "tokens": ["Option<bool>"], "is_bool": False, "q": "", "params": []},
    {"ret": "&'static bool", "tokens": ["&", "bool"], "is_bool": False, "q": "", "params": []},
    {"ret": "(bool,)", "tokens": ["(bool,)"], "is_bool": False, "q": "", "params": []},
    {"ret": "Result<(), bool>", "tokens": ["Result<(), bool>"], "is_bool": False, "q": "", "params": []},
    {"ret": "String", "tokens": ["String"], "is_bool": False, "q": "", "params": []},
    {"ret": "()", "tokens": ["()"], "is_bool": False, "q": "", "params": []},
    {"ret": "u8", "tokens": ["u8"], "is_bool": False, "q": "", "params": []},
    {"ret": "*const bool", "tokens": ["*const", "bool"], "is_bool": False, "q": "", "params": []},
    {"ret": "u8", "tokens": ["u8"], "is_bool": False, "q": "", "params": ["fn() -> bool"], "note": "-> bool inside a parameter"},
    {"ret": "Box<dyn Fn() -> bool>", "tokens": ["Box<dyn Fn() -> bool>"], "is_bool": False, "q": "", "params": []},
]
BOOL_DEFAULT = {"bool": "false", "MyBool": "false", "fn() -> bool": "bg_helper", "extern \"C\" fn() -> bool": "bg_helper_c",
                "fn(u8) -> fn() -> bool": "bg_helper2", "Option<bool>": "None", "&'static bool": "&BG_STATIC", "(bool,)": "(false,)",
                "Result<(), bool>": "Ok(())", "String": "String::new()", "()": "()", "u8": "0", "*const bool": "std::ptr::null()",
                "Box<dyn Fn() -> bool>": "Box::new(|| false)"}


def rust():
    o = []
    o.append("// GENERATED by tools/sigfam.py -- do not edit.  One target and one fake per member of the\n// signature family (C09) and one target per return type of the boolean-gate family (C10).")
    o.append("#![allow(unused_variables, unused_mut, dead_code, clippy::all, improper_ctypes_definitions, uncommon_codepoints, mixed_script_confusables, non_camel_case_types)]")
    o.append("use injectorpp::interface::injector::*;\nuse std::sync::atomic::{AtomicU32, Ordering::SeqCst};\npub static MARK: AtomicU32 = AtomicU32::new(0);")
    o.append("pub mod ns1 { #[derive(Clone, Copy)] pub struct Tok(pub u8); }\npub mod ns2 { #[derive(Clone, Copy)] pub struct Tok(pub u8); }")
    wide = "\u0416" * 70
    o.append("#[derive(Clone, Copy)] pub struct %s(pub u8);\npub type Wide2 = %s;\npub fn mk_wide() -> Wide2 { %s(3) }" % (wide, wide, wide))
    o.append("pub const NFAM: usize = %d;" % len(FAMILY))
    for k, t in enumerate(FAMILY):
        q = ("unsafe " if t["unsafe"] else "") + ("extern \"%s\" " % t["abi"] if t["abi"] != "Rust" else "")
        ps = ", ".join("p%d: %s" % (i, p) for i, p in enumerate(t["params"]))
        r = "" if t["ret"] == "()" else " -> " + t["ret"]
        for role, base, retv in (("t", 100, DEFAULTS[t["ret"]]), ("f", 200, FAKE_RET[t["ret"]])):
            o.append("#[inline(never)]\npub %sfn sig_%s%d(%s)%s { MARK.store(%d, SeqCst); std::hint::black_box(%s) }" % (q, role, k, ps, r, base + k, retv))
    # target pointers
    o.append("pub fn sig_target(k: usize) -> FuncPtr {\n    match k {")
    for k, t in enumerate(FAMILY):
        o.append("        %d => injectorpp::func!(sig_t%d, %s)," % (k, k, type_str(t)))
    o.append("        _ => panic!(\"harness: no such type\"),\n    }\n}")
    o.append("pub fn sig_target_unchecked(k: usize) -> FuncPtr {\n    unsafe { match k {")
    for k, t in enumerate(FAMILY):
        o.append("        %d => injectorpp::func_unchecked!(sig_t%d)," % (k, k))
    o.append("        _ => panic!(\"harness: no such type\"),\n    } }\n}")
    # fakes by form; None = the form does not exist for this type
    o.append("pub fn sig_fake(k: usize, form: &str) -> Option<(FuncPtr, Option<CallCountVerifier>)> {\n    match (k, form) {")
    for k, t in enumerate(FAMILY):
        o.append("        (%d, \"func\") => Some((injectorpp::func!(sig_f%d, %s), None))," % (k, k, type_str(t)))
        o.append("        (%d, \"unchecked\") => Some((unsafe { injectorpp::func_unchecked!(sig_f%d) }, None))," % (k, k))
        if t["abi"] == "Rust" and not t["unsafe"]:
            cps = ", ".join("_p%d: %s" % (i, p) for i, p in enumerate(t["params"]))
            o.append("        (%d, \"closure\") => Some((injectorpp::closure!(|%s| { MARK.store(%d, SeqCst); %s }, %s), None))," % (
                k, cps, 300 + k, FAKE_RET[t["ret"]], type_str(t)))
        if (t["abi"] == "Rust") or (t["unsafe"] and t["abi"] in ("C", "system")):
            ft = type_str(t, named=True)
            if t["ret"] == "()":
                ft_unit = ft + " -> ()"
                o.append("        (%d, \"fake\") => { let (p, v) = injectorpp::fake!(func_type: %s, assign: { MARK.store(%d, SeqCst); }); Some((p, Some(v))) }" % (k, ft_unit, 400 + k))
            else:
                o.append("        (%d, \"fake\") => { let (p, v) = injectorpp::fake!(func_type: %s, returns: { MARK.store(%d, SeqCst); %s }); Some((p, Some(v))) }" % (k, ft, 400 + k, FAKE_RET[t["ret"]]))
    o.append("        _ => None,\n    }\n}")
    # callers
    o.append("pub fn sig_call(k: usize) -> u32 {\n    let mut m: i32 = 0; let mut m64: i64 = 0; let r: i32 = 0; let hm: std::collections::HashMap<String, Vec<u8>> = Default::default();\n    MARK.store(0, SeqCst);\n    match k {")
    for k, t in enumerate(FAMILY):
        args = ", ".join(ARGS[p] for p in t["params"])
        call = "std::hint::black_box(sig_t%d as %s)(%s)" % (k, type_str(t), args)
        if t["unsafe"]:
            call = "unsafe { %s }" % call
        o.append("        %d => { let _ = %s; }" % (k, call))
    o.append("        _ => {}\n    }\n    MARK.load(SeqCst)\n}")
    o.append("pub fn sig_addr(k: usize) -> u64 {\n    match k {")
    for k, t in enumerate(FAMILY):
        o.append("        %d => sig_t%d as %s as usize as u64," % (k, k, type_str(t)))
    o.append("        _ => 0,\n    }\n}")
    # boolean gate family
    o.append("pub type MyBool = bool;\npub static BG_STATIC: bool = false;\nfn bg_helper() -> bool { false }\nextern \"C\" fn bg_helper_c() -> bool { false }\nfn bg_helper2(_x: u8) -> fn() -> bool { bg_helper }")
    o.append("pub const NBOOL: usize = %d;" % len(BOOL_FAMILY))
    for k, b in enumerate(BOOL_FAMILY):
        ps = ", ".join("_p%d: %s" % (i, p) for i, p in enumerate(b["params"]))
        r = "" if b["ret"] == "()" else " -> " + b["ret"]
        o.append("#[inline(never)]\npub %sfn bg_t%d(%s)%s { MARK.store(%d, SeqCst); std::hint::black_box(%s) }" % (b["q"], k, ps, r, 500 + k, BOOL_DEFAULT[b["ret"]]))
    o.append("pub fn bg_target(k: usize) -> FuncPtr {\n    match k {")
    for k, b in enumerate(BOOL_FAMILY):
        ty = "%sfn(%s)%s" % (b["q"], ", ".join(b["params"]), "" if b["ret"] == "()" else " -> " + b["ret"])
        o.append("        %d => injectorpp::func!(bg_t%d, %s)," % (k, k, ty))
    o.append("        _ => panic!(\"harness: no such bool target\"),\n    }\n}")
    o.append("pub fn bg_target_unchecked(k: usize) -> FuncPtr {\n    unsafe { match k {")
    for k, b in enumerate(BOOL_FAMILY):
        o.append("        %d => injectorpp::func_unchecked!(bg_t%d)," % (k, k))
    o.append("        _ => panic!(\"harness: no such bool target\"),\n    } }\n}")
    o.append("/// call a member whose return type really is bool; None for the others\npub fn bg_call(k: usize) -> Option<bool> {\n    MARK.store(0, SeqCst);\n    match k {")
    for k, b in enumerate(BOOL_FAMILY):
        if b["is_bool"]:
            ty = "%sfn(%s) -> %s" % (b["q"], ", ".join(b["params"]), b["ret"])
            args = ", ".join({"u32": "1", "&str": "\"x\""}[p] for p in b["params"])
            call = "std::hint::black_box(bg_t%d as %s)(%s)" % (k, ty, args)
            if "unsafe" in b["q"]:
                call = "unsafe { %s }" % call
            o.append("        %d => Some(%s)," % (k, call))
    o.append("        _ => None,\n    }\n}")
    o.append("pub fn bg_addr(k: usize) -> u64 {\n    match k {")
    for k, b in enumerate(BOOL_FAMILY):
        ty = "%sfn(%s)%s" % (b["q"], ", ".join(b["params"]), "" if b["ret"] == "()" else " -> " + b["ret"])
        o.append("        %d => bg_t%d as %s as usize as u64," % (k, k, ty))
    o.append("        _ => 0,\n    }\n}")
    return "\n".join(o) + "\n"


def generate():
    text = rust()
    os.makedirs(os.path.dirname(OUT), exist_ok=True)
    if not os.path.exists(OUT) or open(OUT).read() != text:
        open(OUT, "w").write(text)
    return OUT


def records():
    return [{"abi": t["abi"], "unsafe": t["unsafe"], "params": t["params"], "ret": t["ret"], "judged": t["judged"],
             "text": type_str(t)} for t in FAMILY]


if __name__ == "__main__":
    print(generate())
