#!/bin/sh
# runs every property's check at the given tier (default quick), one after the other
tier=${1:-quick}
cd "$(dirname "$0")/.."
shift 2>/dev/null
props=${*:-C01 C02 C03 C04 C05 C06 C07 C08 C09 C10 C11 C12 C13 C14 C15 C16 C17}
for p in $props; do
  s=$(date +%s)
  out=$(python3 tools/check.py $p --tier $tier 2>&1); rc=$?
  e=$(date +%s)
  echo "$p rc=$rc $((e-s))s $(echo "$out" | grep -c '^VIOLATION') violations $(echo "$out" | grep -E 'TOOL-ERROR' | head -1 | cut -c1-200)"
done
