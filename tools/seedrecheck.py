#!/usr/bin/env python3
"""seedrecheck.py <name> <check>[,<check>...]: apply /verif/seeded/<name>/patch.diff to /repo, run the quick checks, undo,
and record the result in meta.json (history kept under "rechecks")."""
import json, os, subprocess, sys, time
VERIF = os.path.dirname(os.path.dirname(os.path.abspath(__file__)))
name, checks = sys.argv[1], sys.argv[2].split(",")
ROOT = sys.argv[sys.argv.index("--root") + 1] if "--root" in sys.argv else None   # isolated copy made by tools/seediso.sh
REPO = os.path.join(ROOT, "repo") if ROOT else "/repo"
VDIR = os.path.join(ROOT, "verif") if ROOT else VERIF
d = os.path.join(VERIF, "seeded", name)
meta = json.load(open(os.path.join(d, "meta.json")))
p = subprocess.run("git -C %s apply --3way %s || git -C %s apply %s" % (REPO, os.path.join(d, "patch.diff"), REPO, os.path.join(d, "patch.diff")), shell=True, capture_output=True, text=True)
st = subprocess.run("git -C %s status --short" % REPO, shell=True, capture_output=True, text=True).stdout
if not st.strip():
    print("patch did not apply:", p.stderr[-300:]); sys.exit(2)
res = {}
try:
    for c in checks:
        t0 = time.time()
        q = subprocess.run("python3 tools/check.py %s --tier quick" % c, shell=True, cwd=VDIR, capture_output=True, text=True, timeout=3600)
        o = q.stdout
        viol = [l for l in o.splitlines() if l.startswith("VIOLATION")]
        res[c] = {"exit": q.returncode, "violations": len(viol), "keys": [l.strip() for l in o.splitlines() if l.strip().startswith("key:")][:3],
                  "wall_s": round(time.time() - t0, 1), "tail": o[-300:] if q.returncode == 2 else ""}
finally:
    subprocess.run("git -C %s reset -q --hard HEAD" % REPO, shell=True)
meta.setdefault("rechecks", []).append({"at": time.strftime("%Y-%m-%dT%H:%M:%S"), "repo_head": subprocess.run("git -C %s log --format=%%h -1" % REPO, shell=True, capture_output=True, text=True).stdout.strip(), "results": res})
json.dump(meta, open(os.path.join(d, "meta.json"), "w"), indent=1)
print(name, {c: (r["exit"], r["violations"], r["keys"][:1]) for c, r in res.items()})
