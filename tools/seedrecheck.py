#!/usr/bin/env python3
"""seedrecheck.py <name> <check>[,<check>...]: apply /verif/seeded/<name>/patch.diff to /repo, run the quick checks, undo,
and record the result in meta.json (history kept under "rechecks")."""
import json, os, subprocess, sys, time
VERIF = os.path.dirname(os.path.dirname(os.path.abspath(__file__)))
name, checks = sys.argv[1], sys.argv[2].split(",")
d = os.path.join(VERIF, "seeded", name)
meta = json.load(open(os.path.join(d, "meta.json")))
p = subprocess.run("git -C /repo apply --3way %s || git -C /repo apply %s" % (os.path.join(d, "patch.diff"), os.path.join(d, "patch.diff")), shell=True, capture_output=True, text=True)
st = subprocess.run("git -C /repo status --short", shell=True, capture_output=True, text=True).stdout
if not st.strip():
    print("patch did not apply:", p.stderr[-300:]); sys.exit(2)
res = {}
try:
    for c in checks:
        t0 = time.time()
        q = subprocess.run("python3 tools/check.py %s --tier quick" % c, shell=True, cwd=VERIF, capture_output=True, text=True, timeout=3600)
        o = q.stdout
        viol = [l for l in o.splitlines() if l.startswith("VIOLATION")]
        res[c] = {"exit": q.returncode, "violations": len(viol), "keys": [l.strip() for l in o.splitlines() if l.strip().startswith("key:")][:3],
                  "wall_s": round(time.time() - t0, 1), "tail": o[-300:] if q.returncode == 2 else ""}
finally:
    subprocess.run("git -C /repo reset -q --hard HEAD", shell=True)
meta.setdefault("rechecks", []).append({"at": time.strftime("%Y-%m-%dT%H:%M:%S"), "repo_head": subprocess.run("git -C /repo log --format=%h -1", shell=True, capture_output=True, text=True).stdout.strip(), "results": res})
json.dump(meta, open(os.path.join(d, "meta.json"), "w"), indent=1)
print(name, {c: (r["exit"], r["violations"], r["keys"][:1]) for c, r in res.items()})
