------------------------------ MODULE MC_Async ------------------------------
(* C14: a family of sibling async functions (two with the same output type).     *)
(* Fake(a, v) installs a value for a; while the injector lives every await of a   *)
(* completes on its first poll with a freshly evaluated copy of v and does not    *)
(* run the body; every other sibling behaves as before (a1 suspends once before   *)
(* completing); re-faking replaces the value; dropping the injector brings the    *)
(* original behaviour back.  TLC enumerates the sequences; each is replayed under *)
(* a hand-written executor that counts polls.                                      *)
EXTENDS Naturals, Sequences, FiniteSets, TLC, Json

CONSTANTS Asyncs, Values, MaxSteps, RestoreOnDrop, IsolateSiblings, Faults

None == "none"
VARIABLES alive, faked, hist
avars == <<alive, faked, hist>>

OrigPolls(a) == IF a = "a1" THEN 2 ELSE 1

Init == alive = FALSE /\ faked = [a \in Asyncs |-> None] /\ hist = <<>>

New == ~alive /\ Len(hist) < MaxSteps /\ alive' = TRUE /\ UNCHANGED faked /\ hist' = Append(hist, [act |-> "New"])

Fake(a, v) ==
  /\ alive /\ Len(hist) < MaxSteps
  /\ faked' = IF IsolateSiblings THEN [faked EXCEPT ![a] = v]
              ELSE [b \in Asyncs |-> IF b = a \/ (a = "a1" /\ b = "a2") THEN v ELSE faked[b]]   \* deviation: same-output siblings share
  /\ hist' = Append(hist, [act |-> "Fake", a |-> a, v |-> v]) /\ UNCHANGED alive

\* the operating system refuses to make the function's page writable: the request panics and changes nothing
FakeRefused(a, v) ==
  /\ Faults /\ alive /\ Len(hist) < MaxSteps
  /\ hist' = Append(hist, [act |-> "FakeRefused", a |-> a, v |-> v]) /\ UNCHANGED <<alive, faked>>

Await(a, other) ==
  /\ Len(hist) < MaxSteps
  /\ hist' = Append(hist, [act |-> "Await", a |-> a, thread |-> other,
                           faked |-> faked[a] # None,
                           value |-> IF faked[a] # None THEN faked[a] ELSE "orig",
                           polls |-> IF faked[a] # None THEN 1 ELSE OrigPolls(a),
                           body  |-> IF faked[a] # None THEN 0 ELSE 1])
  /\ UNCHANGED <<alive, faked>>

Drop ==
  /\ alive /\ Len(hist) < MaxSteps
  /\ alive' = FALSE
  /\ faked' = IF RestoreOnDrop THEN [a \in Asyncs |-> None] ELSE faked
  /\ hist' = Append(hist, [act |-> "Drop"])

\* the scope that owns the injector unwinds (a panic in user code): same obligations as Drop
PanicDrop ==
  /\ alive /\ Len(hist) < MaxSteps
  /\ alive' = FALSE
  /\ faked' = IF RestoreOnDrop THEN [a \in Asyncs |-> None] ELSE faked
  /\ hist' = Append(hist, [act |-> "PanicDrop"])

Next == New \/ Drop \/ PanicDrop \/ (\E a \in Asyncs : (\E v \in Values : Fake(a, v) \/ FakeRefused(a, v)) \/ (\E o \in BOOLEAN : Await(a, o)))
Spec == Init /\ [][Next]_avars

\* C14 as invariants of the model
FakedOnlyWhileAlive == ~alive => \A a \in Asyncs : faked[a] = None
LastFakeWins ==
  \A a \in Asyncs :
    LET idx == {i \in 1..Len(hist) : hist[i].act = "Fake" /\ hist[i].a = a
                                     /\ \A j \in i..Len(hist) : hist[j].act \notin {"Drop", "PanicDrop"}}
    IN  IF idx = {} THEN faked[a] = None
        ELSE faked[a] = hist[CHOOSE i \in idx : \A j \in idx : j <= i].v

Full == Len(hist) = MaxSteps
Emit == Full => PrintT(<<"REPLAY", ToJson(hist)>>)
=============================================================================
