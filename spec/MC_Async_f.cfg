SPECIFICATION Spec
CONSTANTS
  Asyncs = {"a1", "a2", "a3"}
  Values = {"v1"}
  MaxSteps = 4
  RestoreOnDrop = TRUE
  IsolateSiblings = TRUE
  Faults = TRUE
INVARIANT FakedOnlyWhileAlive LastFakeWins Emit
CHECK_DEADLOCK FALSE
