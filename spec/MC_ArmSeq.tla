------------------------------ MODULE MC_ArmSeq ------------------------------
(* Design level of C16: the three 12-byte entry layouts of 32-bit ARM as DATA,    *)
(* assembled here from their encodings and executed on A32T32.tla for every        *)
(* entry alignment, both instruction-set states of the fake and a set of           *)
(* addresses:                                                                       *)
(*   A32            : LDR Rt,[PC,#-0] ; BX Rt ; .word fake                           *)
(*   T32, 0 mod 4   : LDR.W Rt,[PC,#ImmT] ; BX Rt ; NOP ; .word fake                  *)
(*   T32, 2 mod 4   : LDR.W Rt,[PC,#ImmT] ; BX Rt ; .word fake ; NOP                  *)
(* Constants `Scratch` (the register) and `ImmT` are the design choices; the        *)
(* pinned tree's choice Scratch = 9 / 7 and a literal offset off by two are          *)
(* deviations that must produce counterexamples.                                     *)
EXTENDS A32T32, TLC

CONSTANTS Scratch, ImmT, Bases, Fakes32

MCBases == {<<b, 128, 0, 0>> : b \in {0, 2, 4, 6, 8, 10, 12, 14}} \cup {<<252, 255, 255, 127>>, <<254, 255, 0, 16>>}
MCFakes == {<<0, 16, 0, 0>>, <<1, 16, 0, 0>>, <<254, 255, 255, 255>>, <<255, 255, 255, 255>>, <<2, 0, 0, 64>>, <<3, 0, 0, 64>>}

VARIABLES isa, base, fake, done
svars == <<isa, base, fake, done>>

LE32(w) == w          \* words are already little-endian byte sequences
Nat32(k) == FromNat31(k, 4)

\* A32 encodings (little-endian bytes)
LdrA(rt)  == <<0, rt * 16, 31, 229>>                 \* E51F t000 : ldr rt,[pc,#-0]
BxA(rm)   == <<16 + rm, 255, 47, 225>>               \* E12FFF1m
\* T32 encodings
LdrW(rt, imm) == <<223, 248, imm % 256, rt * 16 + (imm \div 256)>>   \* F8DF tiii
BxT(rm)   == <<(rm * 8) % 256, 71 + (rm \div 32)>>   \* 4700 | rm<<3
NopT      == <<0, 191>>                              \* BF00

Patch ==
  IF isa = "a32" THEN LdrA(Scratch) \o BxA(Scratch) \o fake
  ELSE IF Small(Nat32(0)) = 0 /\ base[1] % 4 = 0
       THEN LdrW(Scratch, ImmT) \o BxT(Scratch) \o NopT \o fake
       ELSE LdrW(Scratch, ImmT) \o BxT(Scratch) \o fake \o NopT

Init ==
  /\ isa \in {"a32", "t32"} /\ base \in Bases /\ fake \in Fakes32 /\ done = FALSE
  /\ (isa = "a32" => base[1] % 4 = 0) /\ (isa = "t32" => base[1] % 2 = 0)
Next == ~done /\ done' = TRUE /\ UNCHANGED <<isa, base, fake>>
Spec == Init /\ [][Next]_svars

R == RunArm([base |-> base, bytes |-> Patch], base, isa = "t32")

Reaches      == R.status = "left" /\ R.pc = AlignLow(fake, 1) /\ R.thumb = (fake[1] % 2 = 1)
OneLoad      == Cardinality(R.loads) = 1
OnlyScratch  == R.written \subseteq ArmScratch
Fits12       == Len(Patch) = 12
=============================================================================
