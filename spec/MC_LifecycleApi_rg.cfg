SPECIFICATION SpecApi
CONSTANTS
  Threads = {"t1"}
  Funcs = {"f1"}
  FuncSeq <- MCFuncSeq1
  Fakes = {"k1"}
  Sites = {1}
  SlotLen = 4
  MaxPatch = 3
  PatchSizes = {2}
  Split <- MCSplit
  MaxTramps = 4
  NVals <- MCNValsPlain
  BoolSet = {"true"}
  GuardKinds = {"inj"}
  MatchVals = {TRUE}
  DropOrder = "reverse"
  ResetCounterOnInstall = TRUE
  MprotectSpan = "range"
  VerifySilent = TRUE
  SwallowPoison = TRUE
  UnlockFirst = FALSE
  FlushEntry = TRUE
  UnmapOnDrop = TRUE
  Linear = TRUE
  AllowNested = FALSE
  OthersCall = "never"
  KeepPagesWritable = FALSE
  TrampFlushed = TRUE
  Regen = TRUE
  SavedFrom = "install"
  VerifierStep = "first"
  RestoreMayFail = FALSE
  LockByHand = FALSE
  CatchRefusals = FALSE
  ForeignReuse = FALSE
  AllocAt = "hint"
  UserCalls = FALSE
  MaxUserCalls = 0
  InstallKinds = {"jump", "bool"}
  Faults = {}
  SiteReuse = FALSE
  MaxLives = 3
  Gates = {"ok"}
  MaxInstalls = 1
CONSTRAINT CanonDrop
INVARIANT Emit
CHECK_DEADLOCK FALSE
