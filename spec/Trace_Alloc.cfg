SPECIFICATION TraceSpec
CONSTRAINT Track
POSTCONDITION Post
CHECK_DEADLOCK FALSE
