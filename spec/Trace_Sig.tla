------------------------------ MODULE Trace_Sig ------------------------------
(* C09 / C10 (gate half): every ordered pair of the signature family installed   *)
(* for real through every macro form; every return type of the boolean family.    *)
(* The type records carried by the events are the ones the Rust functions were    *)
(* generated from (tools/sigfam.py), so the verdict expected here is structural.  *)
EXTENDS TraceBase

CONSTANTS Props, BoolGate      \* BoolGate: "exact" | "suffix" (deviation: what the pinned code did)

VARIABLES sc, l, s
tvars == <<sc, l, s>>
Ev == Rec[l]
Req(p, cond) == (p \in Props) => cond

TraceInit == sc \in 1..NScen /\ l = First(sc) /\ s = 0
Step(name) == l <= Last(sc) /\ Ev.ev = name /\ l' = l + 1 /\ sc' = sc

Same(a, b) == a.abi = b.abi /\ a.unsafe = b.unsafe /\ a.params = b.params /\ a.ret = b.ret
Judged(e) == (e.ta.judged /\ e.tb.judged) \/ e.a = e.b

\* the signature gate of the specification
GateAccepts(e) ==
  IF e.form \in {"func", "closure", "fake"} THEN Same(e.ta, e.tb)
  ELSE FALSE              \* typed/unchecked mixes and null pointers are always refused

WantCls(e) == IF e.form \in {"null-fake", "null-target"} THEN "null" ELSE "sig-mismatch"

Pair ==
  /\ Step("Pair")
  /\ Req("C09", Judged(Ev) => (Ev.verdict = IF GateAccepts(Ev) THEN "accepted" ELSE "refused"))
  /\ Req("C09", (Judged(Ev) /\ Ev.verdict = "refused") => (Ev.cls = WantCls(Ev) /\ ~Ev.touched))
  /\ Req("C09", (Ev.verdict = "accepted" /\ Ev.a = Ev.b) => Ev.works = TRUE)
  /\ Req("C02", Ev.restored)
  /\ s' = s

BoolAccepts(tokens) ==
  IF BoolGate = "exact" THEN tokens = <<"bool">> ELSE tokens[Len(tokens)] = "bool"

BoolGateEv ==
  /\ Step("BoolGate")
  \* typed target: accepted iff the return type is exactly bool.  A pointer from the unchecked macros
  \* carries no type: it is never accepted for a function that does not return bool (whether a bool
  \* function reached through it is accepted is not judged)
  /\ Req("C10", Ev.form \in {"typed", "typed-unwinding"} => (Ev.verdict = IF BoolAccepts(Ev.fam.tokens) THEN "accepted" ELSE "refused"))
  /\ Req("C10", (Ev.form = "unchecked" /\ ~Ev.fam.is_bool) => Ev.verdict = "refused")
  /\ Req("C10", Ev.verdict = "refused" => (Ev.cls = "bool-gate" /\ ~Ev.touched))
  /\ Req("C10", (Ev.verdict = "accepted" /\ Ev.fam.is_bool) => Ev.works = TRUE)
  /\ Req("C10", Ev.restored)
  /\ s' = s

ChildExit == Step("ChildExit") /\ Ev.signal = 0 /\ Ev.code = 0 /\ s' = s
Note == Step("Note") /\ s' = s
Other == l <= Last(sc) /\ Ev.ev \in {"Mmap", "Munmap", "Mprotect", "Write", "Flush"} /\ l' = l + 1 /\ sc' = sc /\ s' = s

TraceNext == Pair \/ BoolGateEv \/ ChildExit \/ Note \/ Other
TraceSpec == TraceInit /\ [][TraceNext]_tvars
Track == TrackProgress(sc, l)
Post == PrintProgress
=============================================================================
