------------------------------- MODULE MC_Lock -------------------------------
(* C04: three threads, each repeatedly creating an injector (installing its     *)
(* own fake on the one shared function) or a preventer, calling the function,   *)
(* and letting go by scope exit or by panic -- every interleaving.  Safety:     *)
(* mutual exclusion, a preventer sees the original, an injector sees exactly    *)
(* its own fake, a free lock means original code.  Liveness: a waiting thread   *)
(* gets its turn (weak fairness per thread; lifetimes are bounded in the        *)
(* actions, not by a state constraint, so no non-progress cycle is hidden).     *)
EXTENDS Injectorpp

CONSTANTS MaxLives, FakeOf

MCSplit == [f \in Funcs |-> SlotLen]
MCNVals == {-1}
MCFakeOf == [t \in Threads |-> IF t = "t1" THEN "k1" ELSE IF t = "t2" THEN "k2" ELSE "k3"]

F == CHOOSE f \in Funcs : TRUE

ThreadStep(t) ==
  \/ Acquire(t)
  \/ UserPanic(t)
  \/ /\ Len(Guards(t)) = 0 /\ InstallBegin(t, F, "jump", FakeOf[t], NoSite, -1, "ok")
  \/ (\E s \in PatchSizes : GatePass(t, s)) \/ (\E id \in TrampIds : AllocOk(t, id))
  \/ WriteTramp(t) \/ FlushTramp(t) \/ ReadOrig(t) \/ MprotectOk(t)
  \/ WriteEntry(t) \/ FlushEntryStep(t) \/ PushGuard(t) \/ InstallEnd(t)
  \/ DropBegin(t) \/ EarlyUnlock(t)
  \/ (\E i \in 1..MaxTramps : Restore(t, i) \/ FlushRestore(t, i) \/ Unmap(t, i))
  \/ GuardsDone(t) \/ Verify(t) \/ Unlock(t)

NextK ==
  \E t \in Threads :
    \/ th[t].lives < MaxLives /\ \E k \in GuardKinds : Begin(t, k)
    \/ ThreadStep(t)
    \/ OtherExec(t) \/ OtherEnter(t, F)      \* threads that hold nothing may call the function (switch OthersCall)

SpecK == Init /\ [][NextK]_vars /\ \A t \in Threads : WF_vars(ThreadStep(t)) /\ WF_vars(OtherExec(t))

\* an injector at user level with a fake installed sees exactly its own fake
OwnFakes == \A t \in Threads : (AtUser(t) /\ th[t].kind = "inj" /\ lock = t) =>
               (Resolve(F) = Effective(t, F)
                /\ (Len(Guards(t)) = 1 => Resolve(F).kind = "jump" /\ Resolve(F).fake = FakeOf[t]))

HandOver == \A t \in Threads : (th[t].pc = "waiting") ~> (th[t].pc = "user")
NoStuck  == \A t \in Threads : (th[t].pc # "idle") ~> (th[t].pc = "idle")
=============================================================================
