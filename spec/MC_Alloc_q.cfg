SPECIFICATION Spec
CONSTANTS
  NPages = 9
  PS = 2
  R = 4
  Branch = "x64"
  UnmapRejected = TRUE
  Kernel = "mmap"
  Gran = 1
  AcceptTest = "le"
INVARIANT InReach NoLeftover Bounded
PROPERTY Terminates
CHECK_DEADLOCK FALSE
