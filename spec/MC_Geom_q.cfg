SPECIFICATION Spec
CONSTANTS
  AddrMax = 47
  PageSize = 8
  ShortLen = 2
  LongLen = 4
  Reach = 8
  Window = 16
  RangeTest = "exact"
  MprotectSpan = "range"
  EndOffset = 2
INVARIANT NoFault OnPath InRange Arrives OnlyEntry
CHECK_DEADLOCK FALSE
