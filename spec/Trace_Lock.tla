------------------------------ MODULE Trace_Lock ------------------------------
(* Free-running threads (C04, impl -> spec).  Events are ordered by a sequence   *)
(* number taken under the harness's event lock: Acquire is logged after new() / *)
(* prevent() returned, ReleaseBegin before the guard starts to go away, so for   *)
(* a correct library every Acquire(u) is preceded by the ReleaseBegin of the     *)
(* previous holder.  An Acquire while another thread still holds, a preventer    *)
(* (or an injector without installation) observing a fake, or an injector        *)
(* observing anything but its own fake, are not behaviours of the specification. *)
EXTENDS TraceBase

VARIABLES sc, l, s
tvars == <<sc, l, s>>
Ev == Rec[l]

S0 == [holder |-> 0, kind |-> "none", installed |-> FALSE, releasing |-> TRUE]
TraceInit == sc \in 1..NScen /\ l = First(sc) /\ s = S0
Step(name) == l <= Last(sc) /\ Ev.ev = name /\ l' = l + 1 /\ sc' = sc

Acquire ==
  /\ Step("Acquire")
  /\ s.releasing                      \* Mutex: the previous holder has begun to let go
  /\ Ev.lock \in {1, 255}      \* 255 = the hook is unavailable (harness built without it)
  /\ s' = [holder |-> Ev.thread, kind |-> Ev.kind, installed |-> FALSE, releasing |-> FALSE]

Installed == Step("Installed") /\ s.holder = Ev.thread /\ ~s.releasing /\ s' = [s EXCEPT !.installed = TRUE]

Call ==
  /\ Step("Call") /\ s.holder = Ev.thread /\ ~s.releasing
  /\ Ev.res = IF s.kind = "inj" /\ s.installed THEN <<"k", Ev.thread>> ELSE <<"orig", 0>>
  /\ s' = s

ReleaseBegin == Step("ReleaseBegin") /\ s.holder = Ev.thread /\ ~s.releasing /\ s' = [s EXCEPT !.releasing = TRUE]

FreeEnd == Step("FreeEnd") /\ s.releasing /\ Ev.lock # 1 /\ Ev.res = <<"orig", 0>> /\ s' = s
ChildExit == Step("ChildExit") /\ Ev.signal = 0 /\ Ev.code = 0 /\ s' = s
Other == l <= Last(sc) /\ Ev.ev \in {"Mmap", "Munmap", "Mprotect", "Write", "Flush", "Note"} /\ l' = l + 1 /\ sc' = sc /\ s' = s

TraceNext == Acquire \/ Installed \/ Call \/ ReleaseBegin \/ FreeEnd \/ ChildExit \/ Other
TraceSpec == TraceInit /\ [][TraceNext]_tvars
Track == TrackProgress(sc, l)
Post == PrintProgress
=============================================================================
