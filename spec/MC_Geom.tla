------------------------------- MODULE MC_Geom -------------------------------
(* Scaled address geometry for C01 at design level.  Addresses 0..AddrMax,     *)
(* pages of PageSize cells, a short branch of ShortLen cells whose signed       *)
(* displacement field holds -Reach..Reach-1 (relative to the end of the         *)
(* instruction) and a long branch of LongLen cells holding an absolute          *)
(* address: the x86-64 E9 rel32 / mov rax,imm64; jmp rax pair in miniature.     *)
(* TLC enumerates EVERY placement (function, trampoline page, fake), page-      *)
(* straddling entries included, runs the installation algorithm and then        *)
(* executes the cells in memory from the function entry.                        *)
EXTENDS Naturals, Integers, Sequences, FiniteSets, TLC

CONSTANTS AddrMax, PageSize, ShortLen, LongLen, Reach, Window,
          RangeTest,      \* "exact" | "offByOne" (admits displacement = Reach)
          MprotectSpan,   \* "range" | "firstPage"
          EndOffset       \* ShortLen (displacement from the END of the instruction) | 0 (deviation)

Addrs == 0..AddrMax
PageOf(a) == a \div PageSize

VARIABLES func, tramp, fake, mem, rwpages, pc, phase, fault
gvars == <<func, tramp, fake, mem, rwpages, pc, phase, fault>>

\* field arithmetic of the short form: the field keeps the displacement modulo 2*Reach
EncodeField(d) == d % (2 * Reach)
DecodeField(x) == IF x >= Reach THEN x - 2 * Reach ELSE x

Fits(d) == IF RangeTest = "exact" THEN d >= -Reach /\ d <= Reach - 1 ELSE d >= -Reach /\ d <= Reach

\* the encoder: short iff the displacement fits, otherwise absolute
Branch(from, to) ==
  LET d == to - (from + EndOffset) IN
  IF Fits(d) THEN <<[op |-> "JS", x |-> EncodeField(d)]>> \o [i \in 1..(ShortLen - 1) |-> [op |-> "pad"]]
  ELSE <<[op |-> "JL", x |-> to]>> \o [i \in 1..(LongLen - 1) |-> [op |-> "pad"]]

OrigCell(a) == [op |-> "orig", x |-> a]

Overlap(a, n, b, m) == a < b + m /\ b < a + n

Init ==
  /\ func \in 0..(AddrMax - LongLen)
  /\ tramp \in {t \in Addrs : t % PageSize = 0 /\ t + LongLen - 1 <= AddrMax /\ t - func <= Window /\ func - t <= Window}
  /\ fake \in 0..AddrMax
  /\ ~Overlap(func, LongLen, tramp, PageSize) /\ PageOf(func + LongLen - 1) # PageOf(tramp)
  /\ ~Overlap(fake, 1, tramp, PageSize) /\ ~Overlap(fake, 1, func, LongLen)
  /\ mem = [a \in Addrs |-> OrigCell(a)]
  /\ rwpages = {PageOf(tramp)}
  /\ pc = func /\ phase = "alloc" /\ fault = FALSE

Write(at, cells) ==
  IF \A i \in 1..Len(cells) : PageOf(at + i - 1) \in rwpages
  THEN /\ mem' = [a \in Addrs |-> IF a >= at /\ a < at + Len(cells) THEN cells[a - at + 1] ELSE mem[a]]
       /\ fault' = fault
  ELSE /\ fault' = TRUE /\ mem' = mem

WriteTramp ==
  /\ phase = "alloc" /\ Write(tramp, Branch(tramp, fake)) /\ phase' = "tramp"
  /\ UNCHANGED <<func, tramp, fake, rwpages, pc>>

Mprotect ==
  /\ phase = "tramp"
  /\ LET n == Len(Branch(func, tramp)) IN
       rwpages' = rwpages \cup (IF MprotectSpan = "range" THEN {PageOf(func + i) : i \in 0..(n - 1)} ELSE {PageOf(func)})
  /\ phase' = "prot" /\ UNCHANGED <<func, tramp, fake, mem, pc, fault>>

WriteEntry ==
  /\ phase = "prot" /\ Write(func, Branch(func, tramp)) /\ phase' = "run"
  /\ UNCHANGED <<func, tramp, fake, rwpages, pc>>

\* execute the cells in memory
StepCpu ==
  /\ phase = "run" /\ ~fault /\ pc # fake
  /\ mem[pc].op \in {"JS", "JL"}
  /\ pc' = IF mem[pc].op = "JS" THEN (pc + ShortLen + DecodeField(mem[pc].x)) ELSE mem[pc].x
  /\ UNCHANGED <<func, tramp, fake, mem, rwpages, phase, fault>>

Next == WriteTramp \/ Mprotect \/ WriteEntry \/ StepCpu
Spec == Init /\ [][Next]_gvars

\* C01: no write faults; control only ever stands on the entry, the trampoline or the fake;
\* it never stops anywhere but the fake
NoFault == ~fault
OnPath  == phase = "run" => pc \in {func, tramp, fake}
InRange == pc \in Addrs
Arrives == (phase = "run" /\ ~fault /\ ~ENABLED StepCpu) => pc = fake
\* C03 at this level: nothing outside the entry patch and the trampoline page is written
OnlyEntry == \A a \in Addrs : mem[a] # OrigCell(a) =>
                (a >= func /\ a < func + LongLen) \/ PageOf(a) = PageOf(tramp)
=============================================================================
