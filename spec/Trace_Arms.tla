------------------------------ MODULE Trace_Arms ------------------------------
(* C08: every arm of the fake-building macro, instantiated with the same          *)
(* instrumented options and driven through the same call scripts, must behave as  *)
(* the one reference meaning FakeCall(opts):                                       *)
(*   `when` guards the call; a rejected call has no side effect and is not        *)
(*   counted; `times` is a budget (the (N+1)-th matching call panics at the call,  *)
(*   before assign/returns); `assign` runs before the result is produced;          *)
(*   `returns` is evaluated afresh on every admitted call with the arguments in    *)
(*   scope; the scope exit panics iff the count differs from N.                    *)
(* Instrumentation: when: x >= 0; assign: *out += 1; returns: {EVALS += 1;         *)
(* *out * 10 + x}; times: N (a run-time value).  A panic inside a fake whose ABI   *)
(* cannot unwind aborts the process by language rule: for those arms the expected  *)
(* panic is observed as the child's SIGABRT after the panic message.               *)
EXTENDS TraceBase

VARIABLES sc, l, s
tvars == <<sc, l, s>>
Ev == Rec[l]

S0 == [phase |-> "start"]
TraceInit == sc \in 1..NScen /\ l = First(sc) /\ s = S0
Step(name) == l <= Last(sc) /\ Ev.ev = name /\ l' = l + 1 /\ sc' = sc

HasKey(k) == k \in Elems(s.keys)

\* the reference meaning of one call with argument x in state (cnt, out, evals)
FakeCall(x) ==
  IF HasKey("when") /\ x < 0
  THEN [res |-> "panic-args", cnt |-> s.cnt, out |-> s.out, evals |-> s.evals, val |-> 0]
  ELSE IF HasKey("times") /\ s.cnt >= s.n
  THEN [res |-> "panic-over", cnt |-> s.cnt + 1, out |-> s.out, evals |-> s.evals, val |-> 0]
  ELSE LET o == IF HasKey("assign") THEN s.out + 1 ELSE s.out
           e == IF HasKey("returns") THEN s.evals + 1 ELSE s.evals
       IN [res |-> "ret", cnt |-> IF HasKey("times") THEN s.cnt + 1 ELSE s.cnt, out |-> o, evals |-> e,
           val |-> IF s.unit THEN 0 ELSE o * 10 + x]

ArmBegin ==
  /\ Step("ArmBegin")
  /\ s' = [phase |-> "begun", keys |-> Ev.keys, unit |-> Ev.unit, unwinds |-> Ev.unwinds, n |-> Ev.n,
           cnt |-> 0, out |-> 0, evals |-> 0, want |-> [res |-> "none"]]

ArmInstalled == Step("ArmInstalled") /\ s.phase = "begun" /\ Ev.ok /\ s' = [s EXCEPT !.phase = "ready"]

\* C09 through every fake! form: the same fake paired with a target of another kind is refused
ArmWrong == Step("ArmWrong") /\ s.phase = "begun" /\ Ev.refused /\ Ev.cls = "sig-mismatch" /\ s' = [s EXCEPT !.phase = "done"]

\* another fake (another function, another expansion, no count) installed in the same injector between two calls: nothing
\* changes for this one
ArmSecond == Step("ArmSecond") /\ s.phase = "ready" /\ Ev.ok /\ s' = s

ArmCallBegin ==
  /\ Step("ArmCallBegin") /\ s.phase = "ready"
  /\ s' = [s EXCEPT !.phase = "incall", !.want = FakeCall(Ev.x)]

\* the panic message printed by the hook: must be the one the reference meaning predicts
ArmPanic ==
  /\ Step("ArmPanic")
  /\ \/ s.phase = "incall" /\ Ev.cls = s.want.res
     \/ s.phase = "ready" /\ Ev.cls = "count"
     \* "panic in a function that cannot unwind": the runtime's own message before it aborts
     \/ s.phase = "incall" /\ ~s.unwinds /\ s.want.res \in {"panic-args", "panic-over"} /\ Ev.cls = "other"
  /\ s' = s

ArmCall ==
  /\ Step("ArmCall") /\ s.phase = "incall"
  /\ Ev.res = s.want.res /\ Ev.out = s.want.out /\ Ev.evals = s.want.evals
  /\ (Ev.res = "ret" => Ev.val = s.want.val)
  /\ (s.want.res # "ret" => s.unwinds)          \* a panic that came back to the caller did unwind
  /\ s' = [s EXCEPT !.phase = "ready", !.cnt = s.want.cnt, !.out = s.want.out, !.evals = s.want.evals]

ArmExit ==
  /\ Step("ArmExit") /\ s.phase = "ready"
  /\ IF HasKey("times") /\ s.cnt # s.n
     THEN Ev.outcome = "panic" /\ Ev.cls = "count" /\ Ev.exp = s.n /\ Ev.act = s.cnt
     ELSE Ev.outcome = "ok"
  /\ s' = [s EXCEPT !.phase = "exited"]

ArmChild ==
  /\ Step("ArmChild")
  /\ \/ s.phase = "exited" /\ Ev.signal = 0 /\ Ev.code = 0
     \/ s.phase = "incall" /\ ~s.unwinds /\ s.want.res \in {"panic-args", "panic-over"} /\ Ev.signal = 6
  /\ s' = [s EXCEPT !.phase = "done"]

TraceNext == ArmSecond \/ ArmWrong \/ ArmBegin \/ ArmInstalled \/ ArmCallBegin \/ ArmPanic \/ ArmCall \/ ArmExit \/ ArmChild
TraceSpec == TraceInit /\ [][TraceNext]_tvars
Track == TrackProgress(sc, l)
Post == PrintProgress
=============================================================================
