----------------------------- MODULE Trace_Async -----------------------------
(* Replayed async sequences (C14, impl -> spec): every recorded Await must be     *)
(* the one MC_Async's state allows: faked => Ready on the first poll with the      *)
(* latest value, one fresh evaluation of the value expression, body not run;       *)
(* otherwise the original (a1 suspends once), body run once; bodies of siblings    *)
(* never run on behalf of another function; after Drop everything is original.     *)
EXTENDS TraceBase

VARIABLES sc, l, s
tvars == <<sc, l, s>>
Ev == Rec[l]

Asyncs == {"a1", "a2", "a3"}
S0 == [alive |-> FALSE, faked |-> [a \in Asyncs |-> "none"], fresh |-> {}, orph |-> 0]
TraceInit == sc \in 1..NScen /\ l = First(sc) /\ s = S0
Step(name) == l <= Last(sc) /\ Ev.ev = name /\ l' = l + 1 /\ sc' = sc

New  == Step("New") /\ ~s.alive /\ s' = [s EXCEPT !.alive = TRUE]
Fake == Step("Fake") /\ s.alive /\ Ev.ok /\ s' = [s EXCEPT !.faked[Ev.a] = Ev.v]
\* a request the operating system refused: it panicked (mprotect) and nothing changed
\* (the trampoline mapped for it stays behind: observed, outside the listed properties -- C12 speaks of successful
\* installations -- and accounted for as an orphan, as in Trace_Api; a version that gives it back is just as welcome: <=)
FakeRefused == Step("FakeRefused") /\ s.alive /\ ~Ev.ok /\ Ev.cls = "mprotect"
               /\ s' = [s EXCEPT !.orph = @ + 1, !.fresh = {}]
Drop == Step("Drop") /\ s.alive /\ Ev.live <= s.orph /\ s' = [S0 EXCEPT !.orph = s.orph]
PanicDrop == Step("PanicDrop") /\ s.alive /\ Ev.live <= s.orph /\ Ev.lock # 1 /\ s' = [S0 EXCEPT !.orph = s.orph]

Await ==
  /\ Step("Await")
  /\ ~Ev.sibling_bodies_ran
  /\ IF s.faked[Ev.a] # "none"
     THEN Ev.value = s.faked[Ev.a] /\ Ev.polls = 1 /\ Ev.body = 0 /\ Ev.evals = 1
     ELSE Ev.value = "orig" /\ Ev.polls = (IF Ev.a = "a1" THEN 2 ELSE 1) /\ Ev.body = 1 /\ Ev.evals = 0
  /\ s' = s

Shape == Step("Shape") /\ Ev.orig_ok /\ Ev.faked_ok /\ Ev.restored_ok /\ s' = s
AsyncMismatch == Step("AsyncMismatch") /\ Ev.refused /\ Ev.cls = "sig-mismatch" /\ Ev.orig_after /\ s' = s
\* C09, async half: accepted iff the output types are the same; a refusal is a signature-mismatch panic raised
\* before anything is modified
AsyncPair ==
  /\ Step("AsyncPair")
  /\ Ev.verdict = (IF Ev.t1 = Ev.t2 THEN "accepted" ELSE "refused")
  /\ (Ev.verdict = "refused" => (Ev.cls = "sig-mismatch" /\ ~Ev.touched_when_refused))
  /\ s' = s

ChildExit == Step("ChildExit") /\ Ev.signal = 0 /\ Ev.code = 0 /\ s' = s
\* Installation order (Injectorpp!WriteEntry: "the entry is written only after ... the trampoline is complete"): other
\* executor threads may be awaiting the function while it is being (re-)faked, so its entry must never lead into a
\* trampoline that has not been written yet.  `fresh` = mappings obtained and not yet written or given back; the entry's
\* page is made writable only when there is none.
OsMmap    == Step("Mmap") /\ s' = IF Ev.ok THEN [s EXCEPT !.fresh = @ \cup {Ev.name}] ELSE s
OsMunmap  == Step("Munmap") /\ s' = [s EXCEPT !.fresh = @ \ {Ev.name}]
OsWrite   == Step("Write") /\ s' = IF Ev.region = "tramp" THEN [s EXCEPT !.fresh = @ \ {Ev.name}] ELSE s
OsProtect == Step("Mprotect") /\ (Ev.writable => s.fresh = {}) /\ s' = s
Other == l <= Last(sc) /\ Ev.ev \in {"Flush", "Note"} /\ l' = l + 1 /\ sc' = sc /\ s' = s

TraceNext == FakeRefused \/ AsyncPair \/ New \/ Fake \/ Drop \/ PanicDrop \/ Await \/ Shape \/ AsyncMismatch \/ ChildExit \/ Other \/ OsMmap \/ OsMunmap \/ OsWrite \/ OsProtect
TraceSpec == TraceInit /\ [][TraceNext]_tvars
Track == TrackProgress(sc, l)
Post == PrintProgress
=============================================================================
