------------------------------ MODULE MC_Alloc ------------------------------
(* The trampoline allocator (allocate_jit_memory_unix) as a state machine, in   *)
(* a scaled address space: units 0..(NPages*PS-1), pages of PS units, reach R   *)
(* units.  hint := sat_sub(src, R); while hint <= src + R: try mmap(hint);      *)
(* accept iff |addr - src| <= R, else unmap; hint += PS.  The kernel is         *)
(* nondeterministic: a free, non-zero hint page is honoured; otherwise it may   *)
(* return ANY other free page (inside or outside the window) or fail.           *)
(* TLC enumerates every target address, every occupancy and every kernel        *)
(* answer.  `Branch` selects whose branch must reach the accepted page:         *)
(* "x64" (rel32: always reaches inside the window) or "a64" (B imm26:           *)
(* displacement in [-R, R-1]), which exposes the +R edge.                       *)
EXTENDS Naturals, Integers, FiniteSets, TLC

CONSTANTS NPages, PS, R, Branch, UnmapRejected, AcceptTest,
          Kernel,   \* "mmap": a hint the kernel may ignore (Unix) | "win": VirtualAlloc with an address -- exactly there, rounded
                    \* DOWN to the allocation granularity, or failure; never elsewhere
          Gran      \* allocation granularity in pages (64 KiB / 4 KiB = 16 on Windows; scaled here)

Units == 0..(NPages * PS - 1)
PageBase(p) == p * PS
Pages == 0..(NPages - 1)

VARIABLES src, occ, hint, mapped, result, phase, tried
avars == <<src, occ, hint, mapped, result, phase, tried>>

SatSub(a, b) == IF a >= b THEN a - b ELSE 0
Abs(x) == IF x < 0 THEN -x ELSE x

Accepts(a) == IF AcceptTest = "le" THEN Abs(a - src) <= R
              ELSE IF AcceptTest = "a64safe" THEN (a - src >= -R /\ a - src < R)      \* repaired acceptance test
              ELSE Abs(a - src) < R
BranchReaches(a) == IF Branch = "x64" THEN Abs(a - src) <= R ELSE (a - src >= -R /\ a - src <= R - 1)

Init ==
  /\ src \in {u \in Units : u >= PS}                 \* page 0 is never mappable (mmap_min_addr)
  /\ occ \in SUBSET (Pages \ {0})
  /\ (src \div PS) \in occ                           \* the target's own page is occupied
  /\ hint = SatSub(src, R)
  /\ mapped = {} /\ result = "none" /\ phase = "loop" /\ tried = 0

FreePages == (Pages \ {0}) \ (occ \cup mapped)

\* the kernel's answer to mmap(hint): a page number, or -1 for failure
Answers ==
  LET hp == hint \div PS
      base == (hp \div Gran) * Gran IN
  IF Kernel = "win" THEN (IF base \in FreePages THEN {base} ELSE {-1})
  ELSE IF hp \in FreePages THEN {hp} ELSE FreePages \cup {-1}

Try ==
  /\ phase = "loop" /\ hint <= src + R
  /\ \E p \in Answers :
       IF p = -1 THEN UNCHANGED <<mapped, result, phase>>
       ELSE IF Accepts(PageBase(p))
            THEN /\ mapped' = mapped \cup {p} /\ result' = p /\ phase' = "done"
            ELSE /\ mapped' = IF UnmapRejected THEN mapped ELSE mapped \cup {p}
                 /\ UNCHANGED <<result, phase>>
  /\ hint' = IF phase' = "done" THEN hint ELSE hint + PS
  /\ tried' = tried + 1
  /\ UNCHANGED <<src, occ>>

Exhausted ==
  /\ phase = "loop" /\ hint > src + R
  /\ phase' = "panic" /\ UNCHANGED <<src, occ, hint, mapped, result, tried>>

Next == Try \/ Exhausted
Spec == Init /\ [][Next]_avars /\ WF_avars(Next)

\* C11
InReach    == phase = "done" => BranchReaches(PageBase(result))
NoLeftover == phase \in {"done", "panic"} => mapped = (IF phase = "done" THEN {result} ELSE {})
Bounded    == tried <= ((2 * R) \div PS) + 2
Terminates == <>(phase \in {"done", "panic"})
\* observation (not a listed property): a free page inside the window is found when the
\* kernel honours hints -- printed by the driver, never gated
=============================================================================
