-------------------------------- MODULE A64 --------------------------------
(* AArch64 instructions the injector emits, decoded from little-endian bytes.  *)
(*   B imm26 | NOP | MOVZ/MOVK (32- and 64-bit) | BR Xn | RET | ADRP | ADD imm  *)
(* Fields are extracted from the four bytes directly (a 32-bit word does not    *)
(* fit a TLC integer).  Registers are 8-byte words; `written` collects every    *)
(* register an instruction writes.                                              *)
EXTENDS Word, FiniteSets

W(bs, k) == Slice(bs, 4 * k + 1, 4)          \* k-th instruction word (0-based) of a byte sequence

IsB(w)    == w[4] \div 4 = 5                                     \* 000101 imm26
Imm26(w)  == (w[4] % 4) * 16777216 + w[3] * 65536 + w[2] * 256 + w[1]
SExt26(x) == IF x >= 33554432 THEN x - 67108864 ELSE x
BTarget(pc, w) == AddInt(pc, SExt26(Imm26(w)) * 4)          \* |4*imm| <= 2^27

IsNop(w)  == w = <<31, 32, 3, 213>>                              \* D503201F
IsRet(w)  == w = <<192, 3, 95, 214>>                             \* D65F03C0  (ret x30)
IsBr(w)   == w[4] = 214 /\ w[3] = 31 /\ w[1] % 32 = 0 /\ w[2] < 4      \* D61F0000 | Rn<<5
BrReg(w)  == w[2] * 8 + w[1] \div 32

Rd(w)     == w[1] % 32
Imm16(w)  == (w[1] \div 32) + w[2] * 8 + (w[3] % 32) * 2048
Hw(w)     == (w[3] \div 32) % 4
IsMovWide(w) == w[3] \div 128 = 1 /\ w[4] \in {210, 242, 82, 114}       \* D2 movz64, F2 movk64, 52 movz32, 72 movk32
IsMovz(w) == w[4] \in {210, 82}
Is64(w)   == w[4] \in {210, 242}

\* a 16-bit chunk placed at halfword position hw of an 8-byte word
Chunk(v, hw) == [i \in 1..8 |-> IF i = 2 * hw + 1 THEN v % 256 ELSE IF i = 2 * hw + 2 THEN v \div 256 ELSE 0]
SetChunk(r, v, hw) == [i \in 1..8 |-> IF i = 2 * hw + 1 THEN v % 256 ELSE IF i = 2 * hw + 2 THEN v \div 256 ELSE r[i]]

IsAdrp(w) == w[4] >= 128 /\ w[4] % 32 = 16
AdrpImm(w) == (((w[1] \div 32) + w[2] * 8 + w[3] * 2048) * 4) + ((w[4] \div 32) % 4)        \* immhi:immlo, 21 bits
SExt21(x) == IF x >= 1048576 THEN x - 2097152 ELSE x
IsAddImm(w) == w[4] = 145 /\ (w[3] \div 64) % 2 = 0                                       \* 0x91, sh = 0
AddImm12(w) == (w[2] \div 4) + (w[3] % 64) * 64
AddRn(w) == (w[1] \div 32) + (w[2] % 4) * 8

RegName(n) == <<"x", n>>
\* registers hold ARBITRARY values on entry: a poison pattern, plus per-register tracking of which
\* 16-bit chunks have been defined by the code under examination.  Branching through a register
\* that is not completely defined is status "undef" (the destination would depend on garbage).
Regs0 == [n \in 0..30 |-> [i \in 1..8 |-> 165]]
AllChunks == {0, 1, 2, 3}

St0(pc) == [pc |-> pc, x |-> Regs0, def |-> [n \in 0..30 |-> {}], written |-> {}, status |-> "run", n |-> 0]

\* segs: set of [base |-> 8-byte word, bytes |-> seq]
SegOf(segs, pc) == {sg \in segs : LET d == Sub(pc, sg.base) IN IsSmall(d) /\ Small(d) + 4 <= Len(sg.bytes)}
FetchW(segs, pc) == LET sg == CHOOSE x \in SegOf(segs, pc) : TRUE IN Slice(sg.bytes, Small(Sub(pc, sg.base)) + 1, 4)

StepA(segs, st) ==
  IF SegOf(segs, st.pc) = {} THEN [st EXCEPT !.status = "left"]
  ELSE LET w == FetchW(segs, st.pc) IN
    IF IsB(w) THEN [st EXCEPT !.pc = BTarget(st.pc, w), !.n = @ + 1]
    ELSE IF IsNop(w) THEN [st EXCEPT !.pc = AddNat(@, 4), !.n = @ + 1]
    ELSE IF IsRet(w) THEN [st EXCEPT !.status = "ret", !.n = @ + 1]
    ELSE IF IsBr(w) THEN IF st.def[BrReg(w)] = AllChunks THEN [st EXCEPT !.pc = st.x[BrReg(w)], !.n = @ + 1]
                         ELSE [st EXCEPT !.status = "undef"]
    ELSE IF IsMovWide(w) THEN
         LET v == IF IsMovz(w) THEN Chunk(Imm16(w), Hw(w)) ELSE SetChunk(st.x[Rd(w)], Imm16(w), Hw(w))
             v2 == IF Is64(w) THEN v ELSE [i \in 1..8 |-> IF i <= 4 THEN v[i] ELSE 0]
         IN [st EXCEPT !.x[Rd(w)] = v2, !.written = @ \cup {Rd(w)}, !.pc = AddNat(@, 4), !.n = @ + 1,
                       !.def[Rd(w)] = IF IsMovz(w) \/ ~Is64(w) THEN AllChunks ELSE @ \cup {Hw(w)}]
    ELSE IF IsAdrp(w) THEN
         [st EXCEPT !.x[Rd(w)] = Add(PageAlign(st.pc), Times4096(FromInt(SExt21(AdrpImm(w)), 8))),
                    !.def[Rd(w)] = AllChunks, !.written = @ \cup {Rd(w)}, !.pc = AddNat(@, 4), !.n = @ + 1]
    ELSE IF IsAddImm(w) THEN
         [st EXCEPT !.x[Rd(w)] = AddNat(st.x[AddRn(w)], AddImm12(w)), !.def[Rd(w)] = st.def[AddRn(w)],
                    !.written = @ \cup {Rd(w)}, !.pc = AddNat(@, 4), !.n = @ + 1]
    ELSE [st EXCEPT !.status = "unknown"]

RECURSIVE RunA(_, _, _)
RunA(segs, st, fuel) ==
  IF st.status # "run" THEN st ELSE IF fuel = 0 THEN [st EXCEPT !.status = "fuel"] ELSE RunA(segs, StepA(segs, st), fuel - 1)

Run64(segs, pc) == RunA(segs, St0(pc), 12)

\* caller-saved temporaries that carry no argument and no result (AAPCS64): x9..x17
A64Scratch == 9..17
=============================================================================
