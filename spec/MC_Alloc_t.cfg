SPECIFICATION Spec
CONSTANTS
  NPages = 12
  PS = 2
  R = 6
  Branch = "x64"
  UnmapRejected = TRUE
  AcceptTest = "le"
INVARIANT InReach NoLeftover Bounded
PROPERTY Terminates
CHECK_DEADLOCK FALSE
