------------------------------- MODULE MC_Arms -------------------------------
(* Design level of C08: FakeCall(opts) explored over every option set the macro  *)
(* grammar offers, every script of <= MaxLen calls over {matching, rejected},      *)
(* N in 0..2.  Invariants: a rejected call changes nothing; admitted calls never   *)
(* exceed N; `returns` evaluations = admitted calls; the exit verdict is a          *)
(* function of (counted calls, N) only.                                            *)
EXTENDS Naturals, Sequences, FiniteSets, TLC

CONSTANTS MaxLen, AssignBeforeCount   \* deviation: side effects applied before the budget test

OptSets == {o \in SUBSET {"when", "assign", "returns", "times"} : TRUE}
VARIABLES opts, n, cnt, out, evals, admitted, rejected, over, len
mvars == <<opts, n, cnt, out, evals, admitted, rejected, over, len>>

Init == /\ opts \in OptSets /\ n \in 0..2 /\ cnt = 0 /\ out = 0 /\ evals = 0
        /\ admitted = 0 /\ rejected = 0 /\ over = 0 /\ len = 0

Call(match) ==
  /\ len < MaxLen /\ len' = len + 1
  /\ IF "when" \in opts /\ ~match
     THEN /\ rejected' = rejected + 1 /\ UNCHANGED <<cnt, out, evals, admitted, over>>
     ELSE IF "times" \in opts /\ cnt >= n
     THEN /\ over' = over + 1 /\ cnt' = cnt + 1
          /\ out' = IF AssignBeforeCount /\ "assign" \in opts THEN out + 1 ELSE out
          /\ UNCHANGED <<evals, admitted, rejected>>
     ELSE /\ admitted' = admitted + 1
          /\ cnt' = IF "times" \in opts THEN cnt + 1 ELSE cnt
          /\ out' = IF "assign" \in opts THEN out + 1 ELSE out
          /\ evals' = IF "returns" \in opts THEN evals + 1 ELSE evals
          /\ UNCHANGED <<rejected, over>>
  /\ UNCHANGED <<opts, n>>

Next == \E m \in BOOLEAN : Call(m)
Spec == Init /\ [][Next]_mvars

Budget     == "times" \in opts => admitted <= n
SideEffects == out = (IF "assign" \in opts THEN admitted ELSE 0)
FreshEvals == evals = (IF "returns" \in opts THEN admitted ELSE 0)
Counted    == "times" \in opts => cnt = admitted + over
ExitVerdict == "times" \in opts => ((cnt # n) <=> (admitted + over # n))
=============================================================================
