SPECIFICATION TraceSpec
CONSTANTS
  Props = {"C09"}
  BoolGate = "exact"
CONSTRAINT Track
POSTCONDITION Post
CHECK_DEADLOCK FALSE
