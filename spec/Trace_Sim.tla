------------------------------ MODULE Trace_Sim ------------------------------
(* Trace specification for the simulated architectures: the repository's own    *)
(* arm64 / arm / amd64 emitters compiled on the host against a simulated memory. *)
(* Every `Sim` event carries the bytes found at the entry and in the trampoline  *)
(* after one installation; TLC executes them on the ISA models.                  *)
(*  C15: A64 entry = branch to exactly the trampoline (B, or ADRP/ADD/BR x16 on   *)
(*       macOS when far); trampoline builds exactly the 64-bit fake address and   *)
(*       branches (or MOVZ w0,#v; RET); only x9..x17 written; refused => entry     *)
(*       untouched.                                                                *)
(*  C16: A32/T32 literal load reads the word holding the fake (Thumb bit kept),    *)
(*       BX reaches it; saved range = written range; no callee-saved register.     *)
(*  C01: x86-64 entry displacement beyond +/-2 GiB (long entry patch).             *)
(*  C11: every trampoline address the allocator accepts is encodable.              *)
(*  C13: no argument register is written on the way to the fake.                   *)
EXTENDS TraceBase, Word

CONSTANTS Props

X == INSTANCE X64
A == INSTANCE A64
R == INSTANCE A32T32

VARIABLES sc, l, s
tvars == <<sc, l, s>>
Ev == Rec[l]
Req(p, cond) == (p \in Props) => cond

\* s.bdest[v]: where the forced-boolean entry for value v was seen to branch (32-bit ARM), <<>> = not yet seen in this scenario
TraceInit == sc \in 1..NScen /\ l = First(sc) /\ s = [bdest |-> [v \in {0, 1} |-> <<>>]]
Step(name) == l <= Last(sc) /\ Ev.ev = name /\ l' = l + 1 /\ sc' = sc

PatchWrites(e) == {i \in 1..Len(e.writes) : e.writes[i].kind = "patch"}
R128 == <<0, 0, 0, 8, 0, 0, 0, 0>>

Unknown(st) == st.status = "unknown" /\ PrintT(<<"UNKNOWN", sc, l>>)

\* ------------------------------------------------------------------ AArch64
A64Jump(e) ==
  LET entry == {[base |-> e.src, bytes |-> e.entry]}
      trampS == {[base |-> e.tramp, bytes |-> e.trampb]}
      r1 == A!Run64(entry, e.src)
      r2 == A!Run64(trampS, e.tramp)
  IN /\ ~Unknown(r1) /\ ~Unknown(r2)
     /\ Req("C15", r1.status \in {"left", "unknown"} /\ (r1.status = "left" => r1.pc = e.tramp))
     /\ Req("C11", r1.status \in {"left", "unknown"} /\ (r1.status = "left" => r1.pc = e.tramp))
     /\ Req("C15", r1.status = "left" => r1.written \subseteq A!A64Scratch)
     /\ IF e.kind = "bool"
        THEN /\ Req("C15", r2.status \in {"ret", "unknown"})
             /\ Req("C15", r2.status = "ret" => (r2.x[0] = FromNat(e.v, 8) /\ r2.written \subseteq {0}))
        ELSE /\ Req("C15", r2.status \in {"left", "unknown"} /\ (r2.status = "left" => r2.pc = e.fake))
             /\ Req("C15", r2.status = "left" => r2.written \subseteq A!A64Scratch)
             /\ Req("C13", r2.status = "left" => r2.written \cap (0..8) = {})
     /\ Req("C15", e.guard.some /\ e.guard.func = e.src /\ e.guard.size = 12 /\ e.guard.saved = Slice(e.before, 1, 12))

A64Refused(e) ==
  /\ Req("C15", PatchWrites(e) = {} /\ e.entry = e.before)
  \* two cooperating sites: whatever the allocator accepts must be encodable by the branch that is
  \* then written (else the installation fails with the accepted mapping left behind).
  \* `alloc_accepts` is what the REAL allocator did for this displacement (native run, same code).
  /\ Req("C11", ~e.alloc_accepts)

\* ------------------------------------------------------------------ ARM / Thumb
W4(a) == Slice(a, 1, 4)
ArmJump(e) ==
  LET seg == [base |-> W4(e.base), bytes |-> e.entry]
      r == R!RunArm(seg, W4(e.base), e.isa = "t32")
      want == IF e.kind = "bool" THEN r.pc ELSE AlignLow(W4(e.fake), 1)
  IN /\ ~Unknown(r)
     /\ Req("C16", r.status \in {"left", "unknown"})
     /\ Req("C16", (r.status = "left" /\ e.kind # "bool") => (r.pc = want /\ r.thumb = (e.fake[1] % 2 = 1)))
     /\ Req("C16", r.status = "left" => Cardinality(r.loads) = 1)
     /\ Req("C16", e.guard.some /\ W4(e.guard.func) = W4(e.base) /\ e.guard.size = 12 /\ e.guard.saved = Slice(e.before, 1, 12))
     /\ Req("C16", \A i \in PatchWrites(e) : W4(e.writes[i].addr) = W4(e.base) /\ Len(e.writes[i].bytes) = e.guard.size)
     /\ Req("C16", r.status = "left" => r.written \cap {4, 5, 6, 7, 8, 9, 10, 11, 13} = {})
     /\ Req("C13", r.status = "left" => r.written \cap {0, 1, 2, 3, 4, 5, 6, 7, 8, 9, 10, 11, 13} = {})

\* ------------------------------------------------------------------ x86-64 (simulated addresses)
X64Jump(e) ==
  LET segs == {[base |-> e.src, bytes |-> e.entry], [base |-> e.tramp, bytes |-> e.trampb]}
              \cup (IF "extra" \in DOMAIN e THEN {[base |-> e.extra[i].base, bytes |-> e.extra[i].bytes] : i \in 1..Len(e.extra)} ELSE {})
      r == X!Run(segs, e.src)
      \* an instruction the model does not know is a failure in bytes the LIBRARY emitted; inside compiled code of the host that
      \* a trampoline forwards to (extra) it only makes the byte-level verdict inconclusive
      inExtra == "extra" \in DOMAIN e /\ \E i \in 1..Len(e.extra) :
                    LET d == Sub(r.pc, e.extra[i].base) IN IsSmall(d) /\ Small(d) < Len(e.extra[i].bytes)
  IN /\ (inExtra \/ ~Unknown(r))
     /\ IF e.kind = "bool"
        THEN Req("C01", r.status \in {"ret", "unknown"}) /\ Req("C10", r.status = "ret" => r.rax[1] = e.v)
        ELSE /\ Req("C01", r.status \in {"left", "unknown"} /\ (r.status = "left" => r.pc = e.fake))
             \* C11: the placement the allocator accepted is within reach of the branch the encoder then writes
             /\ Req("C11", r.status \in {"left", "unknown"} /\ (r.status = "left" => r.pc = e.fake))
             /\ Req("C13", r.status = "left" => r.written \subseteq X!X64Scratch)
     /\ Req("C01", e.guard.some /\ e.guard.func = e.src /\ e.guard.saved = Slice(e.before, 1, e.guard.size))
     /\ Req("C03", \A i \in 1..16 : i > e.guard.size => e.entry[i] = e.before[i])

Sim ==
  /\ Step("Sim")
  /\ IF Ev.outcome = "ok"
     THEN IF Ev.isa \in {"a64-linux", "a64-macos"} THEN A64Jump(Ev)
          ELSE IF Ev.isa \in {"a32", "t32"} THEN ArmJump(Ev)
          ELSE X64Jump(Ev)
     ELSE IF Ev.isa \in {"a64-linux", "a64-macos"} THEN A64Refused(Ev)
          ELSE Req("C01", PatchWrites(Ev) = {})
  \* the replacement a forced boolean branches to (a routine of the library) does not depend on the function that is
  \* patched: same address, same instruction-set state, whatever the state and alignment of the entry
  /\ IF Ev.outcome = "ok" /\ Ev.isa \in {"a32", "t32"} /\ Ev.kind = "bool"
     THEN LET r == R!RunArm([base |-> W4(Ev.base), bytes |-> Ev.entry], W4(Ev.base), Ev.isa = "t32")
              d == <<r.pc, r.thumb>>
          IN /\ Req("C16", r.status = "left" => (s.bdest[Ev.v] = <<>> \/ s.bdest[Ev.v] = d))
             /\ s' = IF r.status = "left" THEN [s EXCEPT !.bdest[Ev.v] = d] ELSE s
     ELSE s' = s

Note == Step("Note") /\ s' = s
TraceNext == Sim \/ Note
TraceSpec == TraceInit /\ [][TraceNext]_tvars
Track == TrackProgress(sc, l)
Post == PrintProgress
=============================================================================
