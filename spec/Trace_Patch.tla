----------------------------- MODULE Trace_Patch -----------------------------
(* Trace specification for placement runs on x86-64 (native and simulated):    *)
(* the bytes the library actually wrote at the function entry and in the       *)
(* trampoline are executed on the X64 model and must arrive at the fake         *)
(* (C01), writing nothing but free scratch registers (C13); a forced boolean    *)
(* must return exactly the value through `ret` touching only rax (C10); an      *)
(* installation that panicked must have left the entry untouched; the real      *)
(* CPU's answer (native runs) must agree.                                       *)
EXTENDS TraceBase, X64

CONSTANTS Props

VARIABLES sc, l, s
tvars == <<sc, l, s>>
Ev == Rec[l]
Req(p, cond) == (p \in Props) => cond

S0 == [phase |-> "start", ins |-> [outcome |-> "none"], crashed |-> FALSE, pend |-> {}, twr |-> {}, rewritten |-> FALSE]
R128 == <<0, 0, 0, 8, 0, 0, 0, 0>>          \* 0x0800_0000: the +/-128 MiB search window
TraceInit == sc \in 1..NScen /\ l = First(sc) /\ s = S0
Step(name) == l <= Last(sc) /\ Ev.ev = name /\ l' = l + 1 /\ sc' = sc

\* "extra": code the trampoline of a forced boolean forwards to (a stub kept as an ordinary function of the library)
Segs(e) == {[base |-> e.func, bytes |-> e.entry], [base |-> e.tramp, bytes |-> e.trampb]}
           \cup (IF "extra" \in DOMAIN e THEN {[base |-> e.extra[i].base, bytes |-> e.extra[i].bytes] : i \in 1..Len(e.extra)} ELSE {})

JumpOk(e) ==
  LET r == Run(Segs(e), e.func) IN
  /\ (r.status = "unknown" => PrintT(<<"UNKNOWN", sc, l>>))
  /\ Req("C01", r.status \in {"left", "unknown"} /\ ((r.status = "left" /\ e.fake_known) => r.pc = e.fake))
  /\ Req("C13", r.status = "left" => r.written \subseteq X64Scratch)
  /\ Req("C14", r.status \in {"left", "unknown"} /\ ((r.status = "left" /\ e.fake_known) => r.pc = e.fake))
  \* transparency presupposes arrival: the fake that receives the arguments is the one that was installed
  /\ Req("C13", r.status \in {"left", "unknown"} /\ ((r.status = "left" /\ e.fake_known) => r.pc = e.fake))

BoolOk(e) ==
  LET r == Run(Segs(e), e.func) IN
  /\ (r.status = "unknown" => PrintT(<<"UNKNOWN", sc, l>>))
  /\ Req("C10", r.status \in {"ret", "unknown"})
  \* the value of a bool is what `al` holds; the rest of rax is not part of it
  /\ Req("C10", r.status = "ret" => (r.rax[1] = e.v /\ r.written \subseteq {"rax"}))
  /\ Req("C01", r.status \in {"ret", "unknown"})

Place == Step("Place") /\ s' = [s EXCEPT !.phase = "placed"]

Installed ==
  /\ Step("Installed")
  /\ IF Ev.outcome = "ok"
     THEN /\ IF Ev.kind = "bool" THEN BoolOk(Ev) ELSE JumpOk(Ev)
          \* C11: the one mapping left is the trampoline, and it lies inside the window; every
          \* placement that was tried and rejected has been given back
          /\ Req("C11", s.pend = {Ev.tramp_name})
          /\ Req("C12", s.pend = {Ev.tramp_name})
          /\ Req("C11", Le(AbsDiff(Ev.tramp, Ev.func), R128))
     ELSE /\ Req("C01", Ev.entry = Ev.origb)
          /\ Req("C11", Ev.cls = "alloc-exhausted" => (s.pend = {} /\ Ev.entry = Ev.origb))
  /\ s' = [s EXCEPT !.phase = "installed", !.ins = Ev]

Called ==
  /\ Step("Called")
  /\ IF Ev.phase = "installed"
     THEN /\ Req("C01", s.ins.outcome = "ok" => Ev.res = s.ins.want)
          /\ Req("C13", (s.ins.outcome = "ok" /\ s.ins.kind = "jump") => Ev.res = s.ins.want)
          /\ Req("C10", (s.ins.outcome = "ok" /\ s.ins.kind = "bool") => Ev.res = s.ins.want)
          /\ Req("C01", s.ins.outcome = "panic" => Ev.res = s.ins.orig_id)
          /\ Req("C14", Ev.res = (IF s.ins.outcome = "ok" THEN s.ins.want ELSE s.ins.orig_id))
     ELSE /\ Req("C02", Ev.res = s.ins.orig_id)
          /\ Req("C14", Ev.res = s.ins.orig_id)
  /\ s' = s

Neighbour ==
  /\ Step("Neighbour")
  /\ Req("C03", Ev.res = Ev.want)
  /\ Req("C10", Ev.res = Ev.want)      \* "no other observable effect"
  /\ Req("C14", Ev.res = Ev.want)      \* other threads see the fake, siblings keep their bodies
  /\ Req("C02", Ev.res = Ev.want)
  /\ s' = s

Dropped ==
  /\ Step("Dropped")
  /\ Req("C02", Ev.entry = s.ins.origb)
  /\ Req("C12", s.pend = {} /\ Ev.live = 0)
  /\ s' = [s EXCEPT !.phase = "dropped"]

ChildExit ==
  /\ Step("ChildExit")
  /\ Req("ALL", Ev.signal = 0 /\ Ev.code = 0)
  /\ s' = [s EXCEPT !.crashed = (Ev.signal # 0)]

\* several targets through one injector, several lifetimes in one process (kernel-placed trampolines)
MInstalled ==
  /\ Step("MInstalled")
  /\ Req("C01", Ev.outcome = "ok")
  \* at most one mapping stays behind per installation (none when trampolines share a mapping obtained earlier)
  /\ Req("C11", Ev.outcome = "ok" => (Ev.new_mappings <= 1 /\ (Ev.new_mappings = 1 => Le(AbsDiff(Ev.tramp, Ev.func), R128))))
  /\ Req("C12", Ev.outcome = "ok" => Ev.new_mappings <= 1)
  /\ s' = s
\* the bytes every call runs through, read after ALL installations of the lifetime, executed on the X64 model
MState ==
  /\ Step("MState")
  /\ Req("C01", Ev.tramp_mapped)
  /\ (Ev.tramp_mapped => (IF Ev.kind = "bool" THEN BoolOk(Ev) ELSE JumpOk(Ev)))
  /\ s' = s
MCalled ==
  /\ Step("MCalled")
  /\ Req("C01", Ev.phase = "installed" => Ev.res = Ev.want)
  /\ Req("C11", Ev.phase = "installed" => Ev.res = Ev.want)
  /\ Req("C13", Ev.phase = "installed" => Ev.res = Ev.want)
  /\ Req("C10", Ev.res = Ev.want)
  /\ Req("C02", Ev.phase = "dropped" => Ev.res = Ev.want)
  /\ Req("C03", Ev.res = Ev.want)
  /\ s' = s
MDropped ==
  /\ Step("MDropped")
  /\ Req("C02", Ev.restored)
  /\ Req("C12", Ev.live = 0 /\ s.pend = {})
  /\ s' = s

\* memory the rest of the process mapped at an address the library had given back: still mapped, byte for byte
Foreign ==
  /\ Step("Foreign")
  /\ Req("C03", Ev.mapped /\ Ev.intact)
  /\ Req("C12", Ev.mapped)
  /\ s' = s

Mmap == Step("Mmap") /\ Req("C03", Has(Ev, "clobbers_foreign") => ~Ev.clobbers_foreign)
        /\ Req("C12", Has(Ev, "clobbers_foreign") => ~Ev.clobbers_foreign)
        /\ Req("C11", Has(Ev, "clobbers_foreign") => ~Ev.clobbers_foreign)
        /\ s' = IF Ev.ok THEN [s EXCEPT !.pend = @ \cup {Ev.name}] ELSE s
Munmap ==
  /\ Step("Munmap")
  /\ Req("C11", s.phase # "dropped" /\ s.ins.outcome = "none" => Ev.name \in s.pend)
  \* Injectorpp!Unmap: the trampoline of a live installation goes only after the entry that leads into it was rewritten
  /\ Req("C01", (s.phase = "installed" /\ s.ins.outcome = "ok" /\ Ev.name = s.ins.tramp_name) => s.rewritten)
  /\ Req("C14", (s.phase = "installed" /\ s.ins.outcome = "ok" /\ Ev.name = s.ins.tramp_name) => s.rewritten)
  /\ s' = [s EXCEPT !.pend = @ \ {Ev.name}]

\* writes: the named function's slot and owned trampolines only (C03); watched neighbours never
Write ==
  /\ Step("Write")
  \* Injectorpp!WriteEntry: the entry is written only after the trampoline it will lead to is complete (another thread may
  \* call the function at any moment: C01 "from any call site or thread")
  /\ Req("C01", Ev.region = "entry" => s.pend \subseteq s.twr)
  /\ Req("C14", Ev.region = "entry" => s.pend \subseteq s.twr)
  /\ Req("C13", Ev.region = "entry" => s.pend \subseteq s.twr)     \* transparency presupposes arrival
  /\ Req("C03", Ev.region \in {"entry", "tramp"})
  /\ Req("C03", Ev.region = "entry" => \A i \in 1..Len(Ev.changed) : Ev.changed[i] <= 16)
  /\ s' = IF Ev.region = "tramp" THEN [s EXCEPT !.twr = @ \cup {Ev.name}]
          ELSE IF Ev.region = "entry" /\ s.phase = "installed" THEN [s EXCEPT !.rewritten = TRUE] ELSE s

Other == l <= Last(sc) /\ Ev.ev \in {"Note", "Mprotect", "Flush", "Target"}
         /\ l' = l + 1 /\ sc' = sc /\ s' = s

TraceNext == Foreign \/ MInstalled \/ MState \/ MCalled \/ MDropped \/ Place \/ Installed \/ Called \/ Neighbour \/ Dropped \/ ChildExit \/ Mmap \/ Munmap \/ Write \/ Other
TraceSpec == TraceInit /\ [][TraceNext]_tvars
Track == TrackProgress(sc, l)
Post == PrintProgress
=============================================================================
