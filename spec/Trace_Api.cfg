SPECIFICATION TraceSpec
CONSTANTS
  Props = {"C02"}
  MaxPatch = 16
CONSTRAINT Track
POSTCONDITION Post
CHECK_DEADLOCK FALSE
