SPECIFICATION SpecApi
CONSTANTS
  Threads = {"t1"}
  Funcs = {"f1", "f2"}
  FuncSeq <- MCFuncSeq
  Fakes = {"k1"}
  Sites = {1, 2}
  SlotLen = 4
  MaxPatch = 3
  PatchSizes = {2}
  Split <- MCSplit
  MaxTramps = 4
  NVals <- MCNVals3
  BoolSet = {"true"}
  GuardKinds = {"inj"}
  MatchVals = {TRUE, FALSE}
  DropOrder = "reverse"
  ResetCounterOnInstall = TRUE
  MprotectSpan = "range"
  VerifySilent = TRUE
  SwallowPoison = TRUE
  UnlockFirst = FALSE
  FlushEntry = TRUE
  UnmapOnDrop = TRUE
  Linear = TRUE
  AllowNested = FALSE
  OthersCall = "never"
  KeepPagesWritable = FALSE
  TrampFlushed = TRUE
  Regen = FALSE
  SavedFrom = "install"
  VerifierStep = "first"
  RestoreMayFail = FALSE
  LockByHand = FALSE
  CatchRefusals = FALSE
  ForeignReuse = FALSE
  AllocAt = "hint"
  UserCalls = TRUE
  MaxUserCalls = 1
  InstallKinds = {"jump", "bool"}
  Faults = {"mmap", "mprotect"}
  SiteReuse = FALSE
  MaxLives = 1
  Gates = {"ok", "sig", "bool", "null"}
  MaxInstalls = 2
CONSTRAINT CanonDrop
INVARIANT Emit
CHECK_DEADLOCK FALSE
