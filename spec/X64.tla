-------------------------------- MODULE X64 --------------------------------
(* Byte-level semantics of the handful of x86-64 instructions the injector     *)
(* emits, plus the alternative far-jump idioms a maintainer might switch to,   *)
(* so that "a call reaches the fake" is evaluated on bytes, not assumed.       *)
(*   E9 rel32            jmp  rel32                                            *)
(*   48 B8 imm64         mov  rax, imm64                                       *)
(*   FF E0               jmp  rax                                              *)
(*   48 C7 C0 imm32      mov  rax, simm32                                      *)
(*   B8 imm32            mov  eax, imm32 (zero-extends)                        *)
(*   C3                  ret                                                   *)
(*   49 BB imm64 / 41 FF E3   mov r11, imm64 ; jmp r11                         *)
(*   49 BA imm64 / 41 FF E2   mov r10, imm64 ; jmp r10                         *)
(*   FF 25 00 00 00 00 + qword   jmp [rip+0]                                   *)
(*   90                  nop                                                   *)
(* Memory is a set of segments [base |-> 8-byte word, bytes |-> seq]; a fetch  *)
(* outside every segment ends the run with status "left" (control has left the *)
(* code under examination) at that pc.  Unknown bytes give "unknown", which is *)
(* INCONCLUSIVE for the checks, never a violation.                             *)
EXTENDS Word, FiniteSets

SegOf(segs, pc, n) ==
  {sg \in segs : LET d == Sub(pc, sg.base) IN IsSmall(d) /\ Small(d) + n <= Len(sg.bytes)}

CanFetch(segs, pc, n) == SegOf(segs, pc, n) # {}
Fetch(segs, pc, n) ==
  LET sg == CHOOSE x \in SegOf(segs, pc, n) : TRUE
      d  == Small(Sub(pc, sg.base))
  IN  Slice(sg.bytes, d + 1, n)

St0(pc) == [pc |-> pc, rax |-> Zero(8), r10 |-> Zero(8), r11 |-> Zero(8), written |-> {}, status |-> "run", n |-> 0]

StepX(segs, st) ==
  IF ~CanFetch(segs, st.pc, 1) THEN [st EXCEPT !.status = "left"]
  ELSE LET op == Fetch(segs, st.pc, 1)[1] IN
    IF op = 233 /\ CanFetch(segs, st.pc, 5)                                   \* E9
    THEN [st EXCEPT !.pc = Add(AddNat(st.pc, 5), SignExt(Slice(Fetch(segs, st.pc, 5), 2, 4), 8)), !.n = @ + 1]
    ELSE IF op = 195 THEN [st EXCEPT !.status = "ret", !.n = @ + 1]            \* C3
    ELSE IF op = 144 THEN [st EXCEPT !.pc = AddNat(@, 1), !.n = @ + 1]        \* 90
    ELSE IF op = 184 /\ CanFetch(segs, st.pc, 5)                              \* B8 imm32
    THEN [st EXCEPT !.rax = ZeroExt(Slice(Fetch(segs, st.pc, 5), 2, 4), 8), !.pc = AddNat(@, 5),
                    !.written = @ \cup {"rax"}, !.n = @ + 1]
    ELSE IF op = 72 /\ CanFetch(segs, st.pc, 2) /\ Fetch(segs, st.pc, 2)[2] = 184 /\ CanFetch(segs, st.pc, 10)
    THEN [st EXCEPT !.rax = Slice(Fetch(segs, st.pc, 10), 3, 8), !.pc = AddNat(@, 10),      \* 48 B8 imm64
                    !.written = @ \cup {"rax"}, !.n = @ + 1]
    ELSE IF op = 72 /\ CanFetch(segs, st.pc, 7) /\ Slice(Fetch(segs, st.pc, 7), 2, 2) = <<199, 192>>
    THEN [st EXCEPT !.rax = SignExt(Slice(Fetch(segs, st.pc, 7), 4, 4), 8), !.pc = AddNat(@, 7),   \* 48 C7 C0 imm32
                    !.written = @ \cup {"rax"}, !.n = @ + 1]
    ELSE IF op = 255 /\ CanFetch(segs, st.pc, 2) /\ Fetch(segs, st.pc, 2)[2] = 224           \* FF E0
    THEN [st EXCEPT !.pc = st.rax, !.n = @ + 1]
    ELSE IF op = 73 /\ CanFetch(segs, st.pc, 10) /\ Fetch(segs, st.pc, 2)[2] = 187           \* 49 BB imm64
    THEN [st EXCEPT !.r11 = Slice(Fetch(segs, st.pc, 10), 3, 8), !.pc = AddNat(@, 10),
                    !.written = @ \cup {"r11"}, !.n = @ + 1]
    ELSE IF op = 73 /\ CanFetch(segs, st.pc, 10) /\ Fetch(segs, st.pc, 2)[2] = 186           \* 49 BA imm64
    THEN [st EXCEPT !.r10 = Slice(Fetch(segs, st.pc, 10), 3, 8), !.pc = AddNat(@, 10),
                    !.written = @ \cup {"r10"}, !.n = @ + 1]
    ELSE IF op = 65 /\ CanFetch(segs, st.pc, 3) /\ Slice(Fetch(segs, st.pc, 3), 2, 2) = <<255, 227>>  \* 41 FF E3
    THEN [st EXCEPT !.pc = st.r11, !.n = @ + 1]
    ELSE IF op = 65 /\ CanFetch(segs, st.pc, 3) /\ Slice(Fetch(segs, st.pc, 3), 2, 2) = <<255, 226>>  \* 41 FF E2
    THEN [st EXCEPT !.pc = st.r10, !.n = @ + 1]
    ELSE IF op = 255 /\ CanFetch(segs, st.pc, 14) /\ Slice(Fetch(segs, st.pc, 6), 2, 5) = <<37, 0, 0, 0, 0>>
    THEN [st EXCEPT !.pc = Slice(Fetch(segs, st.pc, 14), 7, 8), !.n = @ + 1]                  \* FF 25 00000000 ; qword
    ELSE [st EXCEPT !.status = "unknown"]

RECURSIVE RunX(_, _, _)
RunX(segs, st, fuel) ==
  IF st.status # "run" THEN st
  ELSE IF fuel = 0 THEN [st EXCEPT !.status = "fuel"]
  ELSE RunX(segs, StepX(segs, st), fuel - 1)

Run(segs, pc) == RunX(segs, St0(pc), 8)

\* registers a redirection may write: what the System V calling convention leaves free
\* at a function boundary and that carries no argument and no return value
X64Scratch == {"rax", "r10", "r11"}
=============================================================================
