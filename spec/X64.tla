-------------------------------- MODULE X64 --------------------------------
(* Byte-level semantics of the handful of x86-64 instructions the injector     *)
(* emits, plus the alternative far-jump idioms a maintainer might switch to,   *)
(* so that "a call reaches the fake" is evaluated on bytes, not assumed.       *)
(*   E9 rel32            jmp  rel32                                            *)
(*   48 B8 imm64         mov  rax, imm64                                       *)
(*   FF E0               jmp  rax                                              *)
(*   48 C7 C0 imm32      mov  rax, simm32                                      *)
(*   B8 imm32            mov  eax, imm32 (zero-extends)                        *)
(*   C3                  ret                                                   *)
(*   REX.W(+B) B8+r imm64     mov r64, imm64   (any register)                  *)
(*   [41] FF E0+r             jmp r64          (any register)                  *)
(*   FF 25 00 00 00 00 + qword   jmp [rip+0]                                   *)
(*   90                  nop                                                   *)
(*   B0+r ib             mov  al/cl/dl/bl, imm8   (compiled boolean stubs)      *)
(*   31/33 C0|C9|D2|DB   xor  e?x, e?x                                          *)
(* Memory is a set of segments [base |-> 8-byte word, bytes |-> seq]; a fetch  *)
(* outside every segment ends the run with status "left" (control has left the *)
(* code under examination) at that pc.  Unknown bytes give "unknown", which is *)
(* INCONCLUSIVE for the checks, never a violation.                             *)
EXTENDS Word, FiniteSets

SegOf(segs, pc, n) ==
  {sg \in segs : LET d == Sub(pc, sg.base) IN IsSmall(d) /\ Small(d) + n <= Len(sg.bytes)}

CanFetch(segs, pc, n) == SegOf(segs, pc, n) # {}
Fetch(segs, pc, n) ==
  LET sg == CHOOSE x \in SegOf(segs, pc, n) : TRUE
      d  == Small(Sub(pc, sg.base))
  IN  Slice(sg.bytes, d + 1, n)

\* registers by number: 0 rax 1 rcx 2 rdx 3 rbx 4 rsp 5 rbp 6 rsi 7 rdi 8..15 r8..r15
RegNames == <<"rax", "rcx", "rdx", "rbx", "rsp", "rbp", "rsi", "rdi", "r8", "r9", "r10", "r11", "r12", "r13", "r14", "r15">>
RN(n) == RegNames[n + 1]

St0(pc) == [pc |-> pc, r |-> [n \in 0..15 |-> [i \in 1..8 |-> 165]], rax |-> [i \in 1..8 |-> 165],     \* arbitrary on entry (poison)
            written |-> {}, status |-> "run", n |-> 0]

SetReg(st, n, v, len) ==
  [st EXCEPT !.r[n] = v, !.rax = IF n = 0 THEN v ELSE @, !.written = @ \cup {RN(n)}, !.pc = AddNat(@, len), !.n = @ + 1]

StepX(segs, st) ==
  IF ~CanFetch(segs, st.pc, 1) THEN [st EXCEPT !.status = "left"]
  ELSE LET op == Fetch(segs, st.pc, 1)[1] IN
    IF op = 233 /\ CanFetch(segs, st.pc, 5)                                   \* E9 rel32
    THEN [st EXCEPT !.pc = Add(AddNat(st.pc, 5), SignExt(Slice(Fetch(segs, st.pc, 5), 2, 4), 8)), !.n = @ + 1]
    ELSE IF op = 195 THEN [st EXCEPT !.status = "ret", !.n = @ + 1]            \* C3
    ELSE IF op = 144 THEN [st EXCEPT !.pc = AddNat(@, 1), !.n = @ + 1]        \* 90
    ELSE IF op \in 184..191 /\ CanFetch(segs, st.pc, 5)                       \* B8+r imm32 (zero-extends)
    THEN SetReg(st, op - 184, ZeroExt(Slice(Fetch(segs, st.pc, 5), 2, 4), 8), 5)
    ELSE IF op \in {72, 73} /\ CanFetch(segs, st.pc, 10) /\ Fetch(segs, st.pc, 2)[2] \in 184..191
    THEN SetReg(st, (Fetch(segs, st.pc, 2)[2] - 184) + (IF op = 73 THEN 8 ELSE 0),       \* REX.W(+B) B8+r imm64
                Slice(Fetch(segs, st.pc, 10), 3, 8), 10)
    ELSE IF op \in {72, 73} /\ CanFetch(segs, st.pc, 7) /\ Fetch(segs, st.pc, 3)[2] = 199
            /\ Fetch(segs, st.pc, 3)[3] \in 192..199                                       \* REX.W(+B) C7 /0 imm32
    THEN SetReg(st, (Fetch(segs, st.pc, 3)[3] - 192) + (IF op = 73 THEN 8 ELSE 0),
                SignExt(Slice(Fetch(segs, st.pc, 7), 4, 4), 8), 7)
    ELSE IF op = 255 /\ CanFetch(segs, st.pc, 2) /\ Fetch(segs, st.pc, 2)[2] \in 224..231  \* FF /4: jmp r64
    THEN [st EXCEPT !.pc = st.r[Fetch(segs, st.pc, 2)[2] - 224], !.n = @ + 1]
    ELSE IF op = 65 /\ CanFetch(segs, st.pc, 3) /\ Fetch(segs, st.pc, 3)[2] = 255
            /\ Fetch(segs, st.pc, 3)[3] \in 224..231                                       \* 41 FF /4: jmp r8..r15
    THEN [st EXCEPT !.pc = st.r[Fetch(segs, st.pc, 3)[3] - 224 + 8], !.n = @ + 1]
    ELSE IF op \in 176..179 /\ CanFetch(segs, st.pc, 2)                                       \* B0+r ib: mov al/cl/dl/bl, imm8
    THEN SetReg(st, op - 176, <<Fetch(segs, st.pc, 2)[2]>> \o Slice(st.r[op - 176], 2, 7), 2)
    ELSE IF op \in {49, 51} /\ CanFetch(segs, st.pc, 2) /\ Fetch(segs, st.pc, 2)[2] \in {192, 201, 210, 219}
    THEN SetReg(st, (Fetch(segs, st.pc, 2)[2] - 192) \div 9, [i \in 1..8 |-> 0], 2)          \* 31/33 /r, reg = rm: xor e?x, e?x
    ELSE IF op = 255 /\ CanFetch(segs, st.pc, 14) /\ Slice(Fetch(segs, st.pc, 6), 2, 5) = <<37, 0, 0, 0, 0>>
    THEN [st EXCEPT !.pc = Slice(Fetch(segs, st.pc, 14), 7, 8), !.n = @ + 1]                  \* FF 25 00000000 ; qword
    ELSE [st EXCEPT !.status = "unknown"]

RECURSIVE RunX(_, _, _)
RunX(segs, st, fuel) ==
  IF st.status # "run" THEN st
  ELSE IF fuel = 0 THEN [st EXCEPT !.status = "fuel"]
  ELSE RunX(segs, StepX(segs, st), fuel - 1)

Run(segs, pc) == RunX(segs, St0(pc), 8)

\* registers a redirection may write: what the System V calling convention leaves free
\* at a function boundary and that carries no argument and no return value
X64Scratch == {"rax", "r10", "r11"}
=============================================================================
