SPECIFICATION SpecApi
CONSTANTS
  Threads = {"t1"}
  Funcs = {"f1"}
  FuncSeq <- MCFuncSeq1
  Fakes = {"k1"}
  Sites = {1}
  SlotLen = 4
  MaxPatch = 3
  PatchSizes = {2}
  Split <- MCSplit
  MaxTramps = 4
  NVals <- MCNValsC
  BoolSet = {"true"}
  GuardKinds = {"inj"}
  MatchVals = {TRUE}
  DropOrder = "reverse"
  ResetCounterOnInstall = TRUE
  MprotectSpan = "range"
  VerifySilent = TRUE
  SwallowPoison = TRUE
  UnlockFirst = FALSE
  FlushEntry = TRUE
  UnmapOnDrop = TRUE
  Linear = TRUE
  AllowNested = FALSE
  OthersCall = "never"
  KeepPagesWritable = FALSE
  TrampFlushed = TRUE
  Regen = FALSE
  SavedFrom = "install"
  VerifierStep = "first"
  RestoreMayFail = FALSE
  LockByHand = FALSE
  CatchRefusals = FALSE
  ForeignReuse = FALSE
  AllocAt = "hint"
  UserCalls = TRUE
  MaxUserCalls = 2
  InstallKinds = {"jump"}
  Faults = {}
  SiteReuse = TRUE
  MaxLives = 1
  Gates = {"ok"}
  MaxInstalls = 2
CONSTRAINT CanonDrop
INVARIANT Emit
CHECK_DEADLOCK FALSE
