SPECIFICATION SpecL
CONSTANTS
  Threads = {"t1"}
  Funcs = {"f1", "f2"}
  Fakes = {"k1"}
  Sites = {1}
  SlotLen = 4
  MaxPatch = 3
  PatchSizes = {2, 3}
  Split <- MCSplit
  MaxTramps = 3
  NVals <- MCNVals
  BoolSet = {"true"}
  GuardKinds = {"inj"}
  MatchVals = {TRUE}
  DropOrder = "reverse"
  ResetCounterOnInstall = TRUE
  MprotectSpan = "range"
  VerifySilent = TRUE
  SwallowPoison = TRUE
  UnlockFirst = FALSE
  FlushEntry = TRUE
  UnmapOnDrop = TRUE
  Linear = FALSE
  AllowNested = FALSE
  OthersCall = "never"
  KeepPagesWritable = FALSE
  TrampFlushed = TRUE
  Regen = FALSE
  SavedFrom = "install"
  VerifierStep = "first"
  RestoreMayFail = FALSE
  LockByHand = FALSE
  CatchRefusals = FALSE
  ForeignReuse = FALSE
  AllocAt = "hint"
  MaxLives = 1
  MaxInstalls = 2
  MaxCtr = 2
CONSTRAINT Bound
INVARIANT TypeOK Restored LatestWins NoWildAtUser OnlyNamed Mutex HolderIsLock NoAbort Reusable IdleClean NoLeak FreeOnce FlushedAtUser NoFault NoSelfDeadlock WX
PROPERTY FreshCount RefusedUntouched ResetBeforeLive
CHECK_DEADLOCK FALSE
