SPECIFICATION Spec
CONSTANTS
  AddrMax = 95
  PageSize = 8
  ShortLen = 2
  LongLen = 4
  Reach = 8
  Window = 24
  RangeTest = "exact"
  MprotectSpan = "range"
  EndOffset = 2
INVARIANT NoFault OnPath InRange Arrives OnlyEntry
CHECK_DEADLOCK FALSE
