SPECIFICATION TraceSpec
CONSTANTS
  Props = {"C15"}
CONSTRAINT Track
POSTCONDITION Post
CHECK_DEADLOCK FALSE
