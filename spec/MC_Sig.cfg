SPECIFICATION Spec
CONSTANTS
  BoolGate = "exact"
INVARIANT RenderingDecides Distinct BoolExact
CHECK_DEADLOCK FALSE
