SPECIFICATION Spec
CONSTANTS
  MaxLen = 4
  AssignBeforeCount = FALSE
INVARIANT Budget SideEffects FreshEvals Counted ExitVerdict
CHECK_DEADLOCK FALSE
