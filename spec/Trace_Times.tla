----------------------------- MODULE Trace_Times -----------------------------
(* Concurrent calls of a counted fake recorded as CallStart / CallEnd pairs     *)
(* (logged under one lock, so the log order respects real time).  The counter   *)
(* update is an internal step `Fire(id)` that TLC places between the start and  *)
(* the end of each call: the trace is accepted iff SOME linearisation of the    *)
(* recorded calls is a behaviour of MC_Times' atomic fetch_add semantics, and   *)
(* the scope-exit verdict matches the final count (C06).                        *)
EXTENDS TraceBase

VARIABLES sc, l, s
tvars == <<sc, l, s>>
Ev == Rec[l]

Empty == [x \in {} |-> 0]
Put(fn, k, v) == [x \in (DOMAIN fn) \cup {k} |-> IF x = k THEN v ELSE fn[x]]
Del(fn, k) == [x \in (DOMAIN fn) \ {k} |-> fn[x]]

S0 == [n |-> 0, cnt |-> 0, open |-> Empty, phase |-> "start", ret |-> 0, over |-> 0, burst |-> FALSE, km |-> 0, kn |-> 0, args |-> 0]
TraceInit == sc \in 1..NScen /\ l = First(sc) /\ s = S0
Step(name) == l <= Last(sc) /\ Ev.ev = name /\ l' = l + 1 /\ sc' = sc
Silent == l' = l /\ sc' = sc

TimesBegin == Step("TimesBegin") /\ s' = [s EXCEPT !.n = Ev.n, !.cnt = 0, !.phase = "calls", !.km = Ev.k_match, !.kn = Ev.k_nomatch]

\* tight-loop rounds report per-thread outcome counts only: every call overlaps every other,
\* so any linearisation is allowed and the specification constrains the totals
Burst ==
  /\ Step("Burst") /\ s.phase = "calls" /\ Ev.other = 0
  /\ s' = [s EXCEPT !.burst = TRUE, !.ret = @ + Ev.ret, !.over = @ + Ev.over, !.args = @ + Ev.args, !.cnt = @ + Ev.ret + Ev.over]

Min(a, b) == IF a < b THEN a ELSE b

CallStart ==
  /\ Step("CallStart") /\ s.phase = "calls"
  /\ s' = [s EXCEPT !.open = Put(@, Ev.id, [match |-> Ev.match, out |-> "pending"])]

\* the linearisation point of one call: the atomic fetch_add (or the `when` rejection)
Fire(id) ==
  /\ Silent /\ id \in DOMAIN s.open /\ s.open[id].out = "pending"
  /\ IF ~s.open[id].match
     THEN s' = [s EXCEPT !.open = Put(@, id, [match |-> FALSE, out |-> "panic-args"])]
     ELSE s' = [s EXCEPT !.cnt = @ + 1,
                         !.open = Put(@, id, [match |-> TRUE, out |-> IF s.cnt >= s.n THEN "panic-over" ELSE "ret"])]

CallEnd ==
  /\ Step("CallEnd")
  /\ Ev.id \in DOMAIN s.open /\ s.open[Ev.id].out = Ev.out
  /\ s' = [s EXCEPT !.open = Del(@, Ev.id)]

Exit ==
  /\ Step("Exit") /\ DOMAIN s.open = {}
  /\ s.burst => (s.ret = Min(s.km, s.n) /\ s.over = s.km - Min(s.km, s.n) /\ s.args = s.kn)
  /\ IF s.cnt = s.n THEN Ev.outcome = "ok"
     ELSE Ev.outcome = "panic" /\ Ev.cls = "count" /\ Ev.exp = s.n /\ Ev.act = s.cnt
  /\ s' = [s EXCEPT !.phase = "done"]

\* lifetimes built through one shared fake!(.., times: 1) line, one call each, on many threads: each lifetime is a
\* critical section (install = counter reset, one call, verdict), so no scope exit may ever complain
Helper == Step("Helper") /\ Ev.failures = 0 /\ s' = s

\* the earliest call: another thread calls the function the instant its entry has been flushed, in every one of many
\* consecutive lifetimes through one fake!(.., times: n) line; that call is answered by the fake and is the installation's
\* first call (C01 "from any thread", C07 "starts from zero"), so n - 1 further calls make every scope exit silent
Early == Step("Early") /\ Ev.failures = 0 /\ Ev.early_calls = Ev.rounds /\ Ev.early_bad = 0 /\ s' = s

ChildExit == Step("ChildExit") /\ Ev.signal = 0 /\ Ev.code = 0 /\ s' = s
Note == Step("Note") /\ s' = s
Other == l <= Last(sc) /\ Ev.ev \in {"Mmap", "Munmap", "Mprotect", "Write", "Flush"} /\ l' = l + 1 /\ sc' = sc /\ s' = s

TraceNext == Early \/ TimesBegin \/ Helper \/ Burst \/ CallStart \/ CallEnd \/ Exit \/ ChildExit \/ Note \/ Other \/ (\E id \in DOMAIN s.open : Fire(id))
TraceSpec == TraceInit /\ [][TraceNext]_tvars
Track == TrackProgress(sc, l)
Post == PrintProgress
=============================================================================
