SPECIFICATION Spec
CONSTANTS
  PageSize = 4096
  Lens = {5, 12}
  Eight = 8
  ProtectLen = "patch"
  TrampFlush = TRUE
  JitBack = TRUE
INVARIANT NoFault FlushedAtReturn ExecModeAtReturn NoWritableLeftMac
CHECK_DEADLOCK FALSE
