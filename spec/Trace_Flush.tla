----------------------------- MODULE Trace_Flush -----------------------------
(* Platform variants of the OS-facing layer (the repository's common.rs and      *)
(* emitters compiled on this host for macOS / Windows / Linux x arm64 / x86-64   *)
(* against shims of the OS items, real memory): the flush discipline of C17 on    *)
(* the platform primitive of each system -- __clear_cache (Linux),                *)
(* FlushInstructionCache (Windows), sys_icache_invalidate (macOS) -- plus the     *)
(* mapping accounting of C12 and the restoration of C02 on the same runs.         *)
(*   PWrite(off, len)   bytes of the arena that changed since the last observation *)
(*   PFlush(off, len)   the platform's instruction-cache primitive was called     *)
(*   POs / PBarrier     any other OS item / the dsb+isb pair                      *)
(*   PReturn            the library returned to its caller                        *)
(* Injectorpp!FlushedAtUser: whenever control is with the user, no written byte   *)
(* is still waiting for its flush.                                                *)
EXTENDS TraceBase

CONSTANTS Props
VARIABLES sc, l, s
tvars == <<sc, l, s>>
Ev == Rec[l]
Req(p, cond) == (p \in Props) => cond

S0 == [phase |-> "start", dirty |-> {}, maps |-> 0]
TraceInit == sc \in 1..NScen /\ l = First(sc) /\ s = S0
Step(name) == l <= Last(sc) /\ Ev.ev = name /\ l' = l + 1 /\ sc' = sc
Range(o, n) == o..(o + n - 1)

PBegin  == Step("PBegin") /\ s.phase = "start" /\ s' = [s EXCEPT !.phase = "run"]
PWrite  == Step("PWrite") /\ s' = [s EXCEPT !.dirty = @ \cup Range(Ev.off, Ev.len)]
PFlush  == Step("PFlush") /\ s' = [s EXCEPT !.dirty = IF Ev.in_arena THEN @ \ Range(Ev.off, Ev.len) ELSE @]
PBarrier == Step("PBarrier") /\ s' = s
POs ==
  /\ Step("POs")
  /\ Req("C12", Ev.call \in {"munmap", "VirtualFree"} => Ev.x.owned)       \* only what was obtained is given back
  /\ s' = [s EXCEPT !.maps = IF Ev.call \in {"mmap", "VirtualAlloc"} THEN @ + 1
                             ELSE IF Ev.call \in {"munmap", "VirtualFree"} THEN @ - 1 ELSE @]
\* C17: "... after the last write to that range and before control returns to the user"
PReturn ==
  /\ Step("PReturn")
  /\ Req("C17", s.dirty = {})
  /\ s' = s
PEnd ==
  /\ Step("PEnd")
  \* a panic is within every property here when it is the allocator's (C11: "or fails with a panic"): the interrupted call was
  \* refused a placement at least once; whatever was installed before it is nevertheless restored, released and flushed
  /\ Req("ALL", Ev.outcome = "ok" \/ Ev.refused_in_call > 0)
  /\ Req("C02", Ev.restored)
  /\ Req("C12", Ev.held = 0 /\ s.maps = 0)
  /\ Req("C17", s.dirty = {})
  /\ s' = [s EXCEPT !.phase = "done"]

TraceNext == PBegin \/ PWrite \/ PFlush \/ PBarrier \/ POs \/ PReturn \/ PEnd
TraceSpec == TraceInit /\ [][TraceNext]_tvars
Track == TrackProgress(sc, l)
Post == PrintProgress
=============================================================================
