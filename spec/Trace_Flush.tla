----------------------------- MODULE Trace_Flush -----------------------------
(* Platform variants of the OS-facing layer (the repository's common.rs and      *)
(* emitters compiled on this host for macOS / Windows / Linux x arm64 / x86-64   *)
(* against shims of the OS items, real memory): the flush discipline of C17 on    *)
(* the platform primitive of each system -- __clear_cache (Linux),                *)
(* FlushInstructionCache (Windows), sys_icache_invalidate (macOS) -- plus the     *)
(* mapping accounting of C12 and the restoration of C02 on the same runs.         *)
(*   PWrite(off, len)   bytes of the arena that changed since the last observation *)
(*   PFlush(off, len)   the platform's instruction-cache primitive was called     *)
(*   POs / PBarrier     any other OS item / the dsb+isb pair                      *)
(*   PReturn            the library returned to its caller                        *)
(* Injectorpp!FlushedAtUser: whenever control is with the user, no written byte   *)
(* is still waiting for its flush.                                                *)
EXTENDS TraceBase

CONSTANTS Props
VARIABLES sc, l, s
tvars == <<sc, l, s>>
Ev == Rec[l]
Req(p, cond) == (p \in Props) => cond

\* page protections as the three systems keep them (4 KiB pages of the arena; page 0/1 = the function's text, r-x):
\*   wr    pages that are writable now
\*   jitp  pages mapped MAP_JIT (macOS): writable iff this thread's JIT write protection is off
\*   jit   1 = JIT write protection on (the state in which JIT pages can be executed)
\*   fresh pages obtained as a trampoline that have not been written yet
S0 == [phase |-> "start", dirty |-> {}, maps |-> 0, wr |-> {}, jitp |-> {}, jit |-> 1, fresh |-> {}]
PagesOf(o, n) == IF n <= 0 THEN {} ELSE (o \div 4096)..((o + n - 1) \div 4096)
Writable(pg) == pg \in s.wr \/ (pg \in s.jitp /\ s.jit = 0)
HasW(prot) == (prot \div 2) % 2 = 1
TraceInit == sc \in 1..NScen /\ l = First(sc) /\ s = S0
Step(name) == l <= Last(sc) /\ Ev.ev = name /\ l' = l + 1 /\ sc' = sc
Range(o, n) == o..(o + n - 1)

PBegin  == Step("PBegin") /\ s.phase = "start" /\ s' = [s EXCEPT !.phase = "run"]
\* C01 ("... fails loudly instead"): bytes change only in pages the system lets this thread write at that moment -- on the
\* real system anything else is a fault inside the installation or the restore, not a panic
PWrite  ==
  /\ Step("PWrite")
  /\ Req("C01", \A pg \in PagesOf(Ev.off, Ev.len) : Writable(pg))
  \* the entry (arena pages 0 / 1) starts to lead into a trampoline only when nothing of any trampoline (pages 2..) is still
  \* waiting for its instruction-cache request (Injectorpp!TrampBeforeEntry on the platform's own primitive)
  /\ Req("C17", (Ev.off < 8192) => (\A c \in s.dirty : c < 8192))
  \* ... and only when every trampoline obtained so far has its code (a call made by another thread at this instant follows the
  \* entry into the trampoline)
  /\ Req("C01", (Ev.off < 8192) => s.fresh = {})
  /\ Req("C17", (Ev.off < 8192) => s.fresh = {})
  /\ s' = [s EXCEPT !.dirty = @ \cup Range(Ev.off, Ev.len), !.fresh = @ \ PagesOf(Ev.off, Ev.len)]
PFlush  == Step("PFlush") /\ s' = [s EXCEPT !.dirty = IF Ev.in_arena THEN @ \ Range(Ev.off, Ev.len) ELSE @]
PBarrier == Step("PBarrier") /\ s' = s
POs ==
  /\ Step("POs")
  /\ Req("C12", Ev.call \in {"munmap", "VirtualFree"} => Ev.x.owned)       \* only what was obtained is given back
  /\ LET pgs == IF ~Ev.in_arena THEN {} ELSE IF Ev.call = "VirtualFree" THEN PagesOf(Ev.off, 1) ELSE PagesOf(Ev.off, Ev.len)
         \* mprotect: whole pages from a page-aligned address (EINVAL otherwise: nothing changes);
         \* VirtualProtect and mach_vm_protect: every page holding a byte of [addr, addr + size)
         newwr == CASE Ev.call = "mmap" /\ (Ev.x.flags \div 2048) % 2 = 0 -> IF HasW(Ev.x.prot) THEN s.wr \cup pgs ELSE s.wr \ pgs
                    [] Ev.call = "VirtualAlloc" -> IF Ev.x.prot \in {4, 64} THEN s.wr \cup pgs ELSE s.wr \ pgs
                    [] Ev.call \in {"munmap", "VirtualFree"} -> s.wr \ pgs
                    [] Ev.call = "mprotect" -> IF ~Ev.x.ok THEN s.wr ELSE IF HasW(Ev.x.prot) THEN s.wr \cup pgs ELSE s.wr \ pgs
                    [] Ev.call = "VirtualProtect" -> IF Ev.x.prot \in {4, 64} THEN s.wr \cup pgs ELSE s.wr \ pgs
                    [] Ev.call = "mach_vm_protect" -> IF HasW(Ev.x.prot) THEN s.wr \cup pgs ELSE s.wr \ pgs
                    [] OTHER -> s.wr
         newjitp == CASE Ev.call = "mmap" /\ (Ev.x.flags \div 2048) % 2 = 1 -> s.jitp \cup pgs
                      [] Ev.call = "munmap" -> s.jitp \ pgs
                      [] OTHER -> s.jitp
     IN s' = [s EXCEPT !.maps = IF Ev.call \in {"mmap", "VirtualAlloc"} THEN @ + 1
                                 ELSE IF Ev.call \in {"munmap", "VirtualFree"} THEN @ - 1 ELSE @,
                       !.wr = newwr, !.jitp = newjitp,
                       !.fresh = IF Ev.call \in {"mmap", "VirtualAlloc"} THEN @ \cup pgs
                                 ELSE IF Ev.call \in {"munmap", "VirtualFree"} THEN @ \ pgs ELSE @,
                       !.jit = IF Ev.call = "jit_write_protect" THEN Ev.x.enabled ELSE @]
\* C17: "... after the last write to that range and before control returns to the user"
PReturn ==
  /\ Step("PReturn")
  /\ Req("C17", s.dirty = {})
  /\ Req("C01", s.jit = 1)          \* macOS: back in the state in which this thread can execute its trampolines
  /\ s' = s
PEnd ==
  /\ Step("PEnd")
  \* a panic is within every property here when it is the allocator's (C11: "or fails with a panic"): the interrupted call was
  \* refused a placement at least once; whatever was installed before it is nevertheless restored, released and flushed
  /\ Req("ALL", Ev.outcome = "ok" \/ Ev.refused_in_call > 0)
  /\ Req("C02", Ev.restored)
  /\ Req("C12", Ev.held = 0 /\ s.maps = 0)
  /\ Req("C17", s.dirty = {})
  /\ s' = [s EXCEPT !.phase = "done"]

TraceNext == PBegin \/ PWrite \/ PFlush \/ PBarrier \/ POs \/ PReturn \/ PEnd
TraceSpec == TraceInit /\ [][TraceNext]_tvars
Track == TrackProgress(sc, l)
Post == PrintProgress
=============================================================================
