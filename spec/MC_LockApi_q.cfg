SPECIFICATION SpecS
CONSTANTS
  Threads = {"t1", "t2"}
  Funcs = {"f1"}
  Fakes = {"k1", "k2"}
  FakeOf <- MCFakeOf
  Sites = {}
  SlotLen = 3
  MaxPatch = 2
  PatchSizes = {2}
  Split <- MCSplit
  MaxTramps = 2
  NVals <- MCNVals
  BoolSet = {}
  GuardKinds = {"inj", "prev"}
  MatchVals = {TRUE}
  DropOrder = "reverse"
  ResetCounterOnInstall = TRUE
  MprotectSpan = "range"
  VerifySilent = TRUE
  SwallowPoison = TRUE
  UnlockFirst = FALSE
  FlushEntry = TRUE
  UnmapOnDrop = TRUE
  Linear = TRUE
  AllowNested = FALSE
  OthersCall = "never"
  KeepPagesWritable = FALSE
  TrampFlushed = TRUE
  Regen = FALSE
  SavedFrom = "install"
  VerifierStep = "first"
  RestoreMayFail = FALSE
  LockByHand = FALSE
  CatchRefusals = FALSE
  ForeignReuse = FALSE
  AllocAt = "hint"
  MaxLives = 1
ACTION_CONSTRAINT AtomicAC
INVARIANT Emit
CHECK_DEADLOCK FALSE
