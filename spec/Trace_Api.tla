------------------------------ MODULE Trace_Api ------------------------------
(* Trace specification for API + OS level event streams recorded from the real *)
(* library (impl -> spec).  The recorded run must be a behaviour of the         *)
(* injector specification *as far as the listed properties constrain it*: any   *)
(* order of independent steps, any number of flushes / mprotects / mmap         *)
(* attempts is accepted (DESIGN.md 4.5); what is required is exactly            *)
(*   C02  after the scope exit every entry holds its original bytes; while the  *)
(*        injector lives a call is answered by the newest installation;         *)
(*   C03  only the first MaxPatch bytes of functions named in an installation   *)
(*        of the current lifetime, and owned trampolines, are ever written;     *)
(*   C05  a refused installation touched nothing; after unwinding the lock is   *)
(*        free and usable, at most one panic per unwinding episode, no abort;   *)
(*   C06  per-call outcome and exit verdict of counted fakes;                   *)
(*   C11  mappings tried and rejected are given back before the call returns;   *)
(*   C12  every accepted trampoline is unmapped exactly once, nothing else is;  *)
(*   C17  no written byte is left unflushed when control returns to the user,   *)
(*        the entry is written only after its trampoline is complete+flushed.   *)
(* `Props` selects which of these a run enforces, so that each property's check *)
(* reports only its own violations and is not masked by another property's.     *)
EXTENDS TraceBase

CONSTANTS Props, MaxPatch

VARIABLES sc, l, s
tvars == <<sc, l, s>>

Ev == Rec[l]
Req(p, cond) == (p \in Props) => cond

W == INSTANCE Word
Empty == [x \in {} |-> 0]
Put(fn, k, v) == [x \in (DOMAIN fn) \cup {k} |-> IF x = k THEN v ELSE fn[x]]

S0 == [phase |-> "idle", kind |-> "none", named |-> {}, mem |-> Empty, orig |-> Empty, split |-> Empty,
       eff |-> Empty, live |-> {}, pend |-> {}, twr |-> {}, orphans |-> {}, rwp |-> {}, dirty |-> {},
       cnt |-> Empty, ver |-> <<>>, ins |-> [f |-> "none"], touched |-> FALSE, unwinding |-> FALSE,
       crashed |-> FALSE, lives |-> 0, ambient |-> FALSE, faddr |-> Empty, tad |-> Empty, ncaught |-> 0]

TraceInit == sc \in 1..NScen /\ l = First(sc) /\ s = S0

Step(name) == l <= Last(sc) /\ Ev.ev = name /\ l' = l + 1 /\ sc' = sc

PageOf(f, off) == IF off <= s.split[f] THEN 1 ELSE 2

-----------------------------------------------------------------------------
Target ==
  /\ Step("Target")
  /\ s' = [s EXCEPT !.faddr = IF Has(Ev, "addr") THEN Put(@, Ev.f, Ev.addr) ELSE @,
                    !.mem = Put(@, Ev.f, Ev.orig), !.orig = Put(@, Ev.f, Ev.orig),
                    !.split = Put(@, Ev.f, Ev.split), !.eff = Put(@, Ev.f, <<>>),
                    !.rwp = @ \cup {<<Ev.f, p>> : p \in Elems(Ev.rwpages)}]

\* the whole scenario runs while the thread is already unwinding from an unrelated panic
\* (std::thread::panicking() = TRUE): nothing changes except that the verifier stays silent
Ambient == Step("Ambient") /\ s' = [s EXCEPT !.ambient = TRUE]

Acquire ==
  /\ Step("Acquire") /\ s.phase = "idle"
  /\ Req("C04", Ev.lock \in {1, 255})
  /\ s' = [s EXCEPT !.phase = "user", !.kind = Ev.kind, !.named = {}, !.ver = <<>>, !.unwinding = FALSE]

InstallBegin ==
  /\ Step("InstallBegin") /\ s.phase = "user" /\ s.kind = "inj"
  /\ s' = [s EXCEPT !.phase = "install", !.touched = FALSE, !.pend = {},
                    !.ins = [f |-> Ev.f, kind |-> Ev.kind, fake |-> Ev.fake, site |-> Ev.site, n |-> Ev.n],
                    !.cnt = IF Ev.site # 0 THEN Put(@, Ev.site, 0) ELSE @]

InLib == s.phase \in {"install", "drop"}

\* C04: the process-wide guard is held at every OS-level step of an installation or a drop
Held == Req("C04", Ev.lock \in {1, 255})

Mmap ==
  /\ Step("Mmap") /\ InLib /\ Held
  /\ Req("C12", s.phase = "install")
  /\ s' = IF Ev.ok THEN [s EXCEPT !.pend = @ \cup {Ev.name}, !.touched = TRUE,
                                  !.tad = IF Has(Ev, "ret") THEN Put(@, Ev.name, Ev.ret) ELSE @] ELSE s

\* does the entry of f, as it stands in memory, branch (jmp rel32) into the mapping `name`?
BranchesInto(f, name) ==
  /\ f \in DOMAIN s.faddr /\ name \in DOMAIN s.tad
  /\ s.mem[f][1] = 233
  /\ W!PageAlign(W!Add(W!AddNat(s.faddr[f], 5), W!SignExt(SubSeq(s.mem[f], 2, 5), 8))) = W!PageAlign(s.tad[name])

\* giving back a mapping: it must be one the injector owns and has not given back yet
\* an (injected) munmap failure changes nothing; the mapping stays, through no fault of the library
MunmapFailed ==
  /\ Step("Munmap") /\ InLib /\ Ev.ret # 0
  /\ s' = [s EXCEPT !.orphans = @ \cup ({Ev.name} \cap s.live), !.live = @ \ {Ev.name}]

Munmap ==
  /\ Step("Munmap") /\ InLib /\ Held /\ Ev.ret = 0
  /\ Req("C12", ~Ev.foreign /\ Ev.name \in (s.pend \cup s.live \cup s.orphans))
  /\ Req("C12", Ev.name \in s.live => s.phase = "drop")
  /\ Req("C03", ~Ev.foreign)         \* memory the injector does not own is never given back on its behalf
  \* Injectorpp!Unmap: a trampoline goes only after every entry that led into it has been rewritten (any thread may
  \* call the function at any moment)
  /\ Req("C01", \A f \in DOMAIN s.mem : ~BranchesInto(f, Ev.name))
  /\ Req("C02", \A f \in DOMAIN s.mem : ~BranchesInto(f, Ev.name))
  /\ Req("C14", \A f \in DOMAIN s.mem : ~BranchesInto(f, Ev.name))
  /\ Req("C05", \A f \in DOMAIN s.mem : ~BranchesInto(f, Ev.name))
  /\ s' = [s EXCEPT !.pend = @ \ {Ev.name}, !.live = @ \ {Ev.name}, !.twr = @ \ {Ev.name},
                    !.dirty = {d \in @ : d[1] # Ev.name}]

Locs(name, offs) == {<<name, o>> : o \in offs}

WriteTramp ==
  /\ Step("Write") /\ Ev.region = "tramp"
  /\ Req("C03", s.phase = "install" /\ Ev.name \in s.pend)
  /\ s' = [s EXCEPT !.twr = @ \cup {Ev.name}, !.dirty = @ \cup Locs(Ev.name, Elems(Ev.changed)), !.touched = TRUE]

TrampReady == \E m \in s.pend : m \in s.twr /\ \A d \in s.dirty : d[1] # m

WriteEntry ==
  /\ Step("Write") /\ Ev.region = "entry"
  /\ LET f == Ev.name  ch == Elems(Ev.changed) IN
       /\ Req("C03", \A o \in ch : o <= MaxPatch)
       /\ Req("C03", \/ s.phase = "install" /\ s.ins.f = f
                     \/ s.phase = "drop" /\ f \in s.named)
       /\ Req("C01", \A o \in ch : <<f, PageOf(f, o)>> \in s.rwp)
       /\ Req("C17", s.phase = "install" => TrampReady)
       /\ Req("C14", s.phase = "install" => TrampReady)
       /\ Req("C01", s.phase = "install" => TrampReady)
       /\ s' = [s EXCEPT !.mem = Put(@, f, Ev.new), !.dirty = @ \cup Locs(f, ch), !.touched = TRUE]

\* a write anywhere else in watched memory is never a step of the specification
WriteOther ==
  /\ Step("Write") /\ Ev.region \notin {"tramp", "entry"}
  /\ Req("C03", FALSE)
  /\ s' = s

Flush ==
  /\ Step("Flush") /\ (InLib => Held)
  /\ LET cov == UNION {Locs(c.name, c.lo..c.hi) : c \in Elems(Ev.covers)} IN
       s' = [s EXCEPT !.dirty = @ \ cov]

Mprotect ==
  /\ Step("Mprotect") /\ InLib /\ Held
  /\ s' = IF Ev.ret = 0 /\ Ev.writable
          THEN [s EXCEPT !.rwp = @ \cup {<<c.name, c.page>> : c \in Elems(Ev.covers)}]
          ELSE s

Content == IF s.ins.kind = "bool" THEN [kind |-> "bool", v |-> s.ins.fake]
           ELSE [kind |-> "jump", fake |-> s.ins.fake, site |-> s.ins.site, n |-> s.ins.n]

InstallEndOk ==
  /\ Step("InstallEnd") /\ s.phase = "install" /\ Ev.outcome = "ok"
  /\ Req("C11", \A m \in s.pend : m \in s.twr)          \* nothing tried-and-rejected is left mapped
  /\ Req("C12", s.pend # {})
  /\ Req("C17", s.dirty = {})
  /\ Req("C04", Ev.lock \in {1, 255})
  /\ s' = [s EXCEPT !.phase = "user", !.live = @ \cup s.pend, !.pend = {}, !.named = @ \cup {s.ins.f},
                    !.eff = Put(@, s.ins.f, Append(s.eff[s.ins.f], Content)),
                    !.ver = IF s.ins.site # 0 THEN Append(@, [site |-> s.ins.site, n |-> s.ins.n]) ELSE @,
                    !.ins = [f |-> "none"]]

\* a builder dropped without a terminal call: nothing happened
InstallEndAbandoned ==
  /\ Step("InstallEnd") /\ s.phase = "install" /\ Ev.outcome = "abandoned"
  /\ Req("C03", ~s.touched) /\ Req("C12", ~s.touched /\ s.pend = {}) /\ Req("C05", ~s.touched)
  /\ s' = [s EXCEPT !.phase = "user", !.ins = [f |-> "none"]]

\* an installation that panicked: a refusal (signature, bool gate, null) precedes every
\* modification; an allocation failure leaves nothing mapped and the entry untouched
\* the caller catches the panic of this installation (catch_unwind around the installing call) and goes on
CaughtHere == "caught" \in DOMAIN Ev /\ Ev.caught
InstallEndPanic ==
  /\ Step("InstallEnd") /\ s.phase = "install" /\ Ev.outcome = "panic"
  /\ Req("C05", Ev.cls \in {"sig-mismatch", "bool-gate", "null"} => ~s.touched)
  /\ Req("C09", Ev.cls \in {"sig-mismatch", "bool-gate", "null"} => ~s.touched)
  /\ Req("C11", Ev.cls = "alloc-exhausted" => (s.pend = {} /\ s.mem[s.ins.f] = s.orig[s.ins.f]))
  /\ Req("C05", Ev.cls = "alloc-exhausted" => s.pend = {})
  \* the injector is alive in its owner's scope whether or not the owner catches this panic: the guard is held
  /\ Req("C04", Ev.lock \in {1, 255})
  \* a mapping orphaned by the failed installation is never executed: its unflushed bytes do not matter
  /\ s' = [s EXCEPT !.phase = "user", !.unwinding = IF CaughtHere THEN @ ELSE TRUE,
                    !.ncaught = IF CaughtHere THEN @ + 1 ELSE @, !.orphans = @ \cup s.pend, !.pend = {},
                    !.dirty = {d \in @ : d[1] \notin s.pend},
                    !.ver = IF s.ins.site # 0 /\ Ev.verifier_kept
                            THEN Append(@, [site |-> s.ins.site, n |-> s.ins.n]) ELSE @,
                    !.ins = [f |-> "none"]]

-----------------------------------------------------------------------------
Top(f) == IF s.eff[f] = <<>> THEN [kind |-> "orig"] ELSE s.eff[f][Len(s.eff[f])]

Expected(f, match) ==
  LET c == Top(f) IN
  IF s.phase # "user" \/ s.kind # "inj" THEN "orig"
  ELSE IF c.kind = "orig" THEN "orig"
  ELSE IF c.kind = "bool" THEN c.v
  ELSE IF c.n < 0 THEN c.fake
  ELSE IF ~match THEN "panic-args"
  ELSE IF s.cnt[c.site] >= c.n THEN "panic-over" ELSE c.fake

Call ==
  /\ Step("Call") /\ s.phase \in {"user", "idle"}
  /\ Req("C02", Ev.res = Expected(Ev.f, Ev.match))
  /\ Req("C06", Ev.res = Expected(Ev.f, Ev.match))
  /\ Req("C07", Ev.res = Expected(Ev.f, Ev.match))
  /\ Req("C10", Top(Ev.f).kind = "bool" => Ev.res = Expected(Ev.f, Ev.match))
  /\ LET c == Top(Ev.f) IN
       s' = IF s.phase = "user" /\ c.kind = "jump" /\ c.n >= 0 /\ Ev.res \in {c.fake, "panic-over"}
            THEN [s EXCEPT !.cnt = Put(@, c.site, @[c.site] + 1)]
            ELSE s

\* a call whose panic is not caught by the caller: the scope unwinds
CallUnwind ==
  /\ Step("CallUnwind") /\ s.phase = "user"
  /\ LET c == Top(Ev.f)  e == Expected(Ev.f, Ev.match) IN
       /\ Req("C06", e \in {"panic-args", "panic-over"})
       /\ Req("C05", e \in {"panic-args", "panic-over"})
       /\ s' = [s EXCEPT !.unwinding = TRUE,
                         !.cnt = IF c.kind = "jump" /\ c.n >= 0 /\ e = "panic-over" THEN Put(@, c.site, @[c.site] + 1) ELSE @]

UserPanic ==
  /\ Step("UserPanic") /\ s.phase = "user"
  /\ s' = [s EXCEPT !.unwinding = TRUE]

DropBegin ==
  /\ Step("DropBegin") /\ s.phase = "user"
  /\ Req("C05", ~s.ambient => ((Ev.how = "unwind") = s.unwinding))
  /\ s' = [s EXCEPT !.phase = "drop"]

\* the verifiers that may speak at a normal scope exit: those whose count is off.  WHICH of several speaks is the
\* implementation's business (the pinned tree asks them oldest-first; a refactor asking newest-first raised a false alarm
\* while this rule still named the first one): the verdict names the two numbers of one of them
BadVerifiers == {i \in 1..Len(s.ver) : s.cnt[s.ver[i].site] # s.ver[i].n}

ExitVerdictOk ==
  IF BadVerifiers = {} THEN Ev.outcome = "ok"
  ELSE /\ Ev.outcome = "panic" /\ Ev.cls = "count"
       /\ \E i \in BadVerifiers : Ev.exp = s.ver[i].n /\ Ev.act = s.cnt[s.ver[i].site]

DropEnd ==
  /\ Step("DropEnd") /\ s.phase = "drop"
  /\ Req("C02", \A f \in DOMAIN s.mem : s.mem[f] = s.orig[f])
  /\ Req("C12", s.live = {})
  /\ Req("C17", s.dirty = {})
  /\ Req("C04", Ev.lock # 1)
  \* "at most one panic": besides the panics of installations that the caller caught and survived
  /\ Req("C05", Ev.lock # 1 /\ Ev.panics <= (IF s.ambient THEN 2 ELSE 1) + s.ncaught)
  /\ Req("C05", s.unwinding => Ev.outcome = "ok")        \* nothing is raised while unwinding
  \* unwinding restores every faked function and gives every trampoline back
  /\ Req("C05", s.unwinding => ((\A f \in DOMAIN s.mem : s.mem[f] = s.orig[f]) /\ s.live = {}))
  /\ Req("C06", (~s.unwinding /\ ~s.ambient) => ExitVerdictOk)
  /\ Req("C07", (~s.unwinding /\ ~s.ambient) => ExitVerdictOk)
  /\ Req("C06", s.ambient => Ev.outcome = "ok")
  \* the verdict is part of the critical section: the guard is still held when the verifier speaks
  /\ Req("C06", (Ev.outcome = "panic" /\ Ev.cls = "count") => Ev.lock_at_verify \in {1, 255})
  /\ Req("C04", (Ev.outcome = "panic" /\ Ev.cls = "count") => Ev.lock_at_verify \in {1, 255})
  /\ s' = [s EXCEPT !.phase = "idle", !.kind = "none", !.lives = @ + 1, !.live = {}, !.dirty = {}, !.ncaught = 0,
                    !.eff = [f \in DOMAIN s.eff |-> <<>>]]

Diff ==
  /\ Step("Diff")
  /\ Req("C03", \A r \in Elems(Ev.regions) :
                  /\ r.sym \in s.named \cup {s.ins.f}
                  /\ r.off + r.len - 1 <= MaxPatch
                  /\ s.phase # "idle")
  /\ s' = s

Fresh ==
  /\ Step("Fresh") /\ s.phase = "idle"
  /\ Req("C05", Ev.works)
  /\ s' = s

ChildExit ==
  /\ Step("ChildExit")
  /\ Req("ALL", Ev.signal = 0 /\ Ev.code = 0)
  /\ s' = [s EXCEPT !.crashed = (Ev.signal # 0 \/ Ev.code # 0)]

Note == Step("Note") /\ s' = s
\* long runs in one process: per-cycle mapping accounting, and the process's rwx-anonymous mappings before / after
Cycle ==
  /\ Step("Cycle") /\ s.phase = "idle"
  /\ Req("C12", Ev.live_after = 0 /\ Ev.mmaps_ok = Ev.munmaps_ok /\ Ev.foreign = 0)
  /\ Req("C02", Has(Ev, "restored") => Ev.restored)
  /\ Req("C04", Ev.lock # 1)
  /\ s' = s
Maps ==
  /\ Step("Maps") /\ s.phase = "idle"
  /\ Req("C12", Ev.rwx_after = Ev.rwx_before /\ Ev.live = 0)
  /\ s' = s
\* a function that was never named (another instantiation of the same generic function) still runs its own code
Neighbour == Step("Neighbour") /\ Req("C03", Ev.ok) /\ s' = s

TraceNext ==
  \/ Ambient \/ MunmapFailed \/ Target \/ Acquire \/ InstallBegin \/ Mmap \/ Munmap \/ WriteTramp \/ WriteEntry \/ WriteOther
  \/ Flush \/ Mprotect \/ InstallEndOk \/ InstallEndAbandoned \/ InstallEndPanic \/ Call \/ UserPanic \/ DropBegin \/ DropEnd
  \/ Diff \/ Fresh \/ ChildExit \/ Note \/ Cycle \/ Maps \/ CallUnwind \/ Neighbour

TraceSpec == TraceInit /\ [][TraceNext]_tvars

Track == TrackProgress(sc, l)
Post == PrintProgress
=============================================================================
