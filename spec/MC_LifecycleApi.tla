--------------------------- MODULE MC_LifecycleApi ---------------------------
(* Behaviour generator for spec -> impl replay.  The installation steps run in  *)
(* the canonical order (Linear = TRUE); every API-level action is appended to   *)
(* `hist` together with the projection of the specification's state that the    *)
(* harness can observe after it (who answers a call to each function, how many  *)
(* owned mappings are live, whether the lock is held, panic class).  After      *)
(* every API action the harness calls every function once ("probe"); the same   *)
(* rule is an action here, so call counters of counted fakes evolve in step.    *)
EXTENDS Injectorpp, Json

CONSTANTS MaxLives, MaxInstalls, FuncSeq, Gates, UserCalls, MaxUserCalls, InstallKinds, Faults,
          SiteReuse      \* TRUE: the same fake! line may be installed again while an earlier installation of it is alive (a loop)

VARIABLES hist, needProbe, ncalls
avars == <<vars, hist, needProbe, ncalls>>

MCSplit == [f \in Funcs |-> SlotLen]
MCNVals == {-1, 1, 2}
MCNValsT == {-1, 0, 1, 2}
MCFuncSeq == <<"f1", "f2">>

T == CHOOSE t \in Threads : TRUE

Name(r) == IF r.kind = "orig" THEN "orig"
           ELSE IF r.kind = "bool" THEN r.v
           ELSE IF r.kind = "jump" THEN r.fake ELSE r.kind

RECURSIVE ProbeFold(_, _, _)
ProbeFold(fs, c, acc) ==
  IF fs = <<>> THEN [ctr |-> c, out |-> acc]
  ELSE LET f == Head(fs)  r == Resolve(f) IN
       IF r.kind = "jump" /\ r.n >= 0
       THEN ProbeFold(Tail(fs), [c EXCEPT ![r.site] = @ + 1],
                      Append(acc, IF c[r.site] >= r.n THEN "panic-over" ELSE r.fake))
       ELSE ProbeFold(Tail(fs), c, Append(acc, Name(r)))

LiveCount == Cardinality({id \in TrampIds : tramp[id].state = "live" /\ ~tramp[id].orphan})

Probe ==
  /\ needProbe /\ th[T].pc \in {"user", "idle"}
  /\ LET p == ProbeFold(FuncSeq, ctr, <<>>) IN
       /\ ctr' = IF th[T].pc = "user" THEN p.ctr ELSE ctr
       /\ hist' = Append(hist, [act |-> "Probe", out |-> p.out, live |-> LiveCount, held |-> lock # Free])
  /\ needProbe' = FALSE
  /\ UNCHANGED <<lock, poisoned, th, inj, cur, dropst, code, orig, tramp, rw, dirty, aborted, fault, inflight>>

Quiet(A) == A /\ UNCHANGED <<hist, needProbe>>

\* installations attempted in the current lifetime (successful, refused or abandoned)
LastNew == IF \E i \in 1..Len(hist) : hist[i].act = "New"
           THEN CHOOSE i \in 1..Len(hist) : hist[i].act = "New" /\ \A j \in (i + 1)..Len(hist) : hist[j].act # "New"
           ELSE 0
Attempts == Cardinality({i \in (LastNew + 1)..Len(hist) : hist[i].act = "Install"})

OutName(o) == IF o.res.kind \in {"panic-args", "panic-over"} THEN o.res.kind ELSE Name(o.res)

NextApi0 ==
     \/ Probe
     \/ /\ ~needProbe
        /\ \/ /\ th[T].lives < MaxLives /\ Begin(T, "inj")
              /\ hist' = Append(hist, [act |-> "New"]) /\ UNCHANGED needProbe
           \/ Acquire(T) /\ needProbe' = TRUE /\ UNCHANGED hist
           \* between two lifetimes the environment replaces a function's code (only when Regen)
           \/ /\ th[T].lives \in 1..(MaxLives - 1)
              /\ \A i \in 1..Len(hist) : hist[i].act = "Regen" => \E j \in (i + 1)..Len(hist) : hist[j].act = "New"
              /\ \E f \in Funcs : Regenerate(f) /\ hist' = Append(hist, [act |-> "Regen", f |-> f])
              /\ needProbe' = TRUE
           \/ /\ UserPanic(T)
              /\ hist' = Append(hist, [act |-> "Panic"]) /\ UNCHANGED needProbe
           \/ /\ UserCalls /\ ncalls < MaxUserCalls
              /\ \E f \in Funcs, m \in MatchVals :
                   \/ /\ Call(T, f, m) /\ UNCHANGED needProbe
                      /\ hist' = Append(hist, [act |-> "Call", f |-> f, match |-> m, out |-> OutName(CallOutcome(f, m))])
                   \/ /\ CallPanics(T, f, m) /\ UNCHANGED needProbe
                      /\ hist' = Append(hist, [act |-> "CallUnwind", f |-> f, match |-> m, out |-> OutName(CallOutcome(f, m))])
           \/ \E f \in Funcs, kind \in InstallKinds, fk \in Fakes \cup BoolSet, st \in Sites \cup {NoSite},
                 n \in NVals, g \in Gates :
                 /\ Len(Guards(T)) < MaxInstalls /\ Attempts < MaxInstalls
                 /\ (kind = "bool") = (fk \in BoolSet)
                 /\ (st = NoSite) = (n = -1)
                 /\ (kind = "bool" => n = -1)
                 /\ (g = "bool" => n = -1) /\ (g = "null" => n = -1) /\ (g = "abandon" => n = -1)
                 /\ (st # NoSite => (SiteReuse \/ st = Len(Verifiers(T)) + 1))      \* sites are used in order, each once (unless SiteReuse)
                 /\ (fk = "k2" => \E h \in 1..Len(hist) : hist[h].act = "Install" /\ hist[h].fake = "k1")
                 /\ InstallBegin(T, f, kind, fk, st, n, g)
                 /\ hist' = Append(hist, [act |-> "Install", f |-> f, kind |-> kind, fake |-> fk, site |-> st,
                                          n |-> n, gate |-> g, fault |-> "none", caught |-> FALSE])
                 /\ UNCHANGED needProbe
           \/ Quiet(PushVerifier(T)) \/ Quiet(\E sz \in PatchSizes : GatePass(T, sz))
           \/ /\ GateRefuse(T)
              /\ hist' = Append(hist, [act |-> "InstallPanic", cls |-> cur[T].gate]) /\ UNCHANGED needProbe
           \* the same refusal / failure, caught by the caller: the lifetime goes on with the same injector
           \/ /\ GateRefuseCaught(T) /\ needProbe' = TRUE
              /\ hist' = Append([hist EXCEPT ![Len(hist)].caught = TRUE], [act |-> "InstallPanic", cls |-> cur[T].gate])
           \/ /\ "mmap" \in Faults /\ AllocFailCaught(T) /\ needProbe' = TRUE
              /\ hist' = Append([hist EXCEPT ![Len(hist)].fault = "mmap", ![Len(hist)].caught = TRUE],
                                [act |-> "InstallPanic", cls |-> "alloc-exhausted"])
           \/ /\ "mprotect" \in Faults /\ MprotectFailCaught(T) /\ needProbe' = TRUE
              /\ hist' = Append([hist EXCEPT ![Len(hist)].fault = "mprotect", ![Len(hist)].caught = TRUE],
                                [act |-> "InstallPanic", cls |-> "mprotect"])
           \/ Quiet(\E id \in TrampIds : AllocOk(T, id))
           \/ /\ "mmap" \in Faults /\ AllocFail(T)
              /\ hist' = Append([hist EXCEPT ![Len(hist)].fault = "mmap"], [act |-> "InstallPanic", cls |-> "alloc-exhausted"])
              /\ UNCHANGED needProbe
           \/ Quiet(WriteTramp(T)) \/ Quiet(FlushTramp(T)) \/ Quiet(ReadOrig(T)) \/ Quiet(MprotectOk(T))
           \/ /\ "mprotect" \in Faults /\ MprotectFail(T)
              /\ hist' = Append([hist EXCEPT ![Len(hist)].fault = "mprotect"], [act |-> "InstallPanic", cls |-> "mprotect"])
              /\ UNCHANGED needProbe
           \/ Quiet(WriteEntry(T)) \/ Quiet(FlushEntryStep(T)) \/ Quiet(PushGuard(T))
           \/ InstallEnd(T) /\ needProbe' = TRUE /\ hist' = Append(hist, [act |-> "InstallOk"])
           \/ Abandon(T) /\ needProbe' = TRUE /\ hist' = Append(hist, [act |-> "InstallAbandoned"])
           \/ /\ DropBegin(T) /\ hist' = Append(hist, [act |-> "Drop"]) /\ UNCHANGED needProbe
           \/ Quiet(\E i \in 1..MaxTramps : Restore(T, i) \/ FlushRestore(T, i) \/ Unmap(T, i))
           \/ Quiet(GuardsDone(T))
           \/ /\ Verify(T) /\ UNCHANGED needProbe
              /\ hist' = IF th'[T].panics > th[T].panics
                         THEN Append(hist, [act |-> "VerifyPanic", exp |-> Head(Verifiers(T)).n,
                                            got |-> ctr[Head(Verifiers(T)).site],
                                            \* every verifier that is off at this moment: which of them speaks is not prescribed
                                            cands |-> {<<Verifiers(T)[i].n, ctr[Verifiers(T)[i].site]>> :
                                                         i \in {j \in 1..Len(Verifiers(T)) : ctr[Verifiers(T)[j].site] # Verifiers(T)[j].n}}])
                         ELSE hist
           \/ /\ Unlock(T) /\ needProbe' = TRUE
              /\ hist' = Append(hist, [act |-> "End", panics |-> th[T].panics, unwound |-> th[T].panicking])

NextApi ==
  /\ Alive
  /\ NextApi0
  /\ ncalls' = IF th'[T].pc = "idle" THEN 0
                ELSE IF hist' # hist /\ hist'[Len(hist')].act \in {"Call", "CallUnwind"} THEN ncalls + 1 ELSE ncalls

SpecApi == Init /\ hist = <<>> /\ needProbe = FALSE /\ ncalls = 0 /\ [][NextApi]_avars

\* restore / unmap in the one order the implementation uses (newest first): the generator
\* needs one representative, the exhaustive models explore all of them
CanonDrop ==
  \A t \in Threads : InDrop(t) =>
     /\ \A i \in dropst[t].restored : \A j \in (i + 1)..Len(Guards(t)) : j \in dropst[t].unmapped
     /\ Cardinality(dropst[t].restored \ dropst[t].unmapped) <= 1

Finished == th[T].lives = MaxLives /\ th[T].pc = "idle" /\ ~needProbe
Emit == Finished => PrintT(<<"REPLAY", ToJson(hist)>>)
View == <<vars, hist, needProbe>>
MCNVals3 == {-1, 0, 1, 2}
MCNValsPlain == {-1}
MCNValsLong == {-1, 1, 3}
MCNValsC == {0, 1, 2}
MCNValsI == {1, 2, 3}
MCFuncSeq1 == <<"f1">>
MCSites1 == {1}
=============================================================================
