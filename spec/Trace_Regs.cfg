SPECIFICATION TraceSpec
CONSTANTS
  Props = {"C13"}
CONSTRAINT Track
POSTCONDITION Post
CHECK_DEADLOCK FALSE
