----------------------------- MODULE Trace_Alloc -----------------------------
(* Step-for-step validation of the trampoline allocators against the actions   *)
(* of MC_Alloc (Try / Exhausted): the Unix allocator running natively (events   *)
(* of the interposed mmap/munmap, renamed) and the Windows allocator (both      *)
(* architecture branches of allocate_jit_memory_windows) compiled on this host  *)
(* against a simulated VirtualAlloc / VirtualFree.                              *)
(*   AllocBegin(src, r, accept)   the search is about to start                   *)
(* (the order in which the window is walked is not prescribed)                   *)
(*   Try(hint, ret, ok)           one placement request that was granted         *)
(*                                (requests the OS refused are only counted)     *)
(*   Release(addr)                a granted block is given back                  *)
(*   Result(outcome, addr, tries) the allocator returned or panicked             *)
(* Addresses are 8-byte little-endian sequences (Word.tla).                      *)
EXTENDS TraceBase, Word

VARIABLES sc, l, s
tvars == <<sc, l, s>>
Ev == Rec[l]

S0 == [phase |-> "start", src |-> Zero(8), r |-> Zero(8), lo |-> Zero(8), hi |-> Zero(8), accept |-> "le",
       last |-> <<>>, held |-> <<>>, released |-> 0, tried |-> {}]
TraceInit == sc \in 1..NScen /\ l = First(sc) /\ s = S0
Step(name) == l <= Last(sc) /\ Ev.ev = name /\ l' = l + 1 /\ sc' = sc

\* the acceptance test of the repaired allocators: a branch reaches [-r, +r) on AArch64 ("a64safe");
\* the x86-64 Windows branch accepts |d| <= r ("le") and leaves the choice of the entry form to the encoder
Accepts(a) ==
  LET d == AbsDiff(a, s.src) IN
  IF s.accept = "le" THEN Le(d, s.r)
  ELSE IF Le(s.src, a) THEN Lt(d, s.r) ELSE Le(d, s.r)

Low12Equal(a, b) == a[1] = b[1] /\ (a[2] % 16) = (b[2] % 16)
\* (w >> 12) for a word whose result is known to fit three bytes
Shr12(w) == (w[2] \div 16) + 16 * w[3] + 4096 * w[4] + 1048576 * (w[5] % 16)

AllocBegin ==
  /\ Step("AllocBegin") /\ s.phase = "start"
  /\ s' = [s EXCEPT !.phase = "loop", !.src = Ev.src, !.r = Ev.r, !.accept = Ev.accept,
                    !.lo = IF Lt(Ev.src, Ev.r) THEN Zero(8) ELSE Sub(Ev.src, Ev.r),      \* saturating_sub
                    !.hi = Add(Ev.src, Ev.r)]

\* MC_Alloc!Try: every hint is a page step away from sat_sub(src, r) and lies inside [sat_sub(src, r), src + r]; no hint is
\* asked for twice; a block that was granted and rejected has been given back before the next request.  The ORDER in which
\* the window is walked (bottom-up in the pinned tree) is the implementation's business.
Try ==
  /\ Step("Try") /\ s.phase = "loop"
  \* the window at page granularity: a hint may be the page that holds sat_sub(src, r) (the kernel rounds hints down anyway;
  \* a refactor that aligned its hints itself raised a false alarm while this rule compared bytes)
  /\ Le(PageAlign(s.lo), Ev.hint) /\ Le(Ev.hint, s.hi)
  /\ (s.last # <<>> => Low12Equal(Ev.hint, s.last))      \* page steps (whatever end of the window the walk started from)
  /\ Ev.hint \notin s.tried
  /\ s' = [s EXCEPT !.last = Ev.hint, !.tried = @ \cup {Ev.hint}, !.phase = IF Ev.ok THEN "held" ELSE "loop",
                    !.held = IF Ev.ok THEN Ev.ret ELSE <<>>]

\* ... rejected iff out of reach, and then released (C11: "given back, never left mapped")
Release ==
  /\ Step("Release") /\ s.phase = "held"
  /\ Ev.addr = s.held /\ Ev.ok
  /\ ~Accepts(s.held)
  /\ s' = [s EXCEPT !.phase = "loop", !.held = <<>>, !.released = @ + 1]

\* ... accepted iff within reach.  A panic is within C11 whenever nothing is held: MC_Alloc!Exhausted panics after every
\* page of the window was tried, but how many pages of the window an allocator asks for before giving up (every page, every
\* 64 KiB allocation granule, ...) is not prescribed -- the number of requests is recorded, not judged.
ResultOk ==
  /\ Step("Result") /\ Ev.outcome = "ok" /\ s.phase = "held"
  /\ Ev.addr = s.held /\ Accepts(s.held)
  /\ Ev.held = 1
  /\ s' = [s EXCEPT !.phase = "done"]
ResultPanic ==
  /\ Step("Result") /\ Ev.outcome = "panic" /\ s.phase = "loop"
  /\ Ev.held = 0
  /\ s' = [s EXCEPT !.phase = "panic"]

Other == l <= Last(sc) /\ Ev.ev \in {"Note"} /\ l' = l + 1 /\ sc' = sc /\ s' = s

TraceNext == AllocBegin \/ Try \/ Release \/ ResultOk \/ ResultPanic \/ Other
TraceSpec == TraceInit /\ [][TraceNext]_tvars
Track == TrackProgress(sc, l)
Post == PrintProgress
=============================================================================
