---------------------------- MODULE MC_Platform ----------------------------
(* The OS-facing layer of one code modification, as the three systems see it:   *)
(* patch_function / inject_asm_code / clear_cache of common.rs, one action per   *)
(* OS call, over a scaled address space (pages of PageSize cells).  It is the    *)
(* design-level counterpart of Trace_Flush: the same page rules (which pages    *)
(* are writable NOW) and the same dirty-set discipline, here explored for every  *)
(* entry offset, both patch lengths and both kinds of write (entry of a          *)
(* function in r-x text, contents of a fresh trampoline).                        *)
(*                                                                               *)
(*   Linux    mprotect(page-aligned start, whole pages, rwx); copy; __clear_cache *)
(*   Windows  VirtualProtect(every page holding a byte of the range); copy;       *)
(*            FlushInstructionCache                                               *)
(*   macOS    entry: remap an alias (inherits r-x); mach_vm_protect(alias, LEN,   *)
(*            rw|copy) -- rounded outwards to pages; jit off; copy; jit on;       *)
(*            icache; dcache flush; mach_vm_protect(alias, LEN, rx); icache;      *)
(*            remap back.   trampoline (MAP_JIT): jit off; copy; jit on; icache   *)
(*                                                                               *)
(* Deviations (each is a defect that was found in the pinned tree, or seeded):   *)
(*   ProtectLen  "patch" | "eight" (macOS literal 8, fixed in 5bdadf6)           *)
(*               | "firstpage" (Linux/Windows before caeada3)                    *)
(*   TrampFlush  FALSE: clear_cache() empty on macOS (fixed in 12ba8e5)          *)
(*   JitBack     FALSE: the thread stays in write mode after a trampoline write  *)
EXTENDS Naturals, FiniteSets, TLC

CONSTANTS PageSize,       \* cells per page (scaled)
          Lens,           \* patch lengths explored (scaled 5 and 12 -> e.g. {3, 6})
          Eight,          \* the literal length of the macOS protect call, scaled
          ProtectLen, TrampFlush, JitBack

Systems == {"linux", "windows", "macos"}
Kinds == {"entry", "tramp"}
NPages == 3
Cells == 0..(NPages * PageSize - 1)
PageOf(c) == c \div PageSize
PagesOf(o, n) == IF n <= 0 THEN {} ELSE (o \div PageSize)..((o + n - 1) \div PageSize)
Range(o, n) == IF n <= 0 THEN {} ELSE o..(o + n - 1)

VARIABLES sys, kind, off, len,    \* the case: system, what is written, where, how many cells
          pc,                     \* position in the procedure
          wr,                     \* pages writable now (entry: alias on macOS)
          jit,                    \* macOS: 1 = JIT write protection on (execute mode)
          dirty,                  \* cells written and not yet covered by an instruction-cache request
          fault                   \* a store hit a page that was not writable
vars == <<sys, kind, off, len, pc, wr, jit, dirty, fault>>

\* a trampoline is a fresh rwx mapping (page 2); on macOS it is MAP_JIT: writable iff jit = 0
TrampPage == 2
Writable(pg) ==
  IF kind = "tramp" THEN (IF sys = "macos" THEN jit = 0 ELSE TRUE)
  ELSE pg \in wr

Init ==
  /\ sys \in Systems /\ kind \in Kinds /\ len \in Lens
  /\ off \in IF kind = "entry" THEN 0..(2 * PageSize - 1) ELSE {TrampPage * PageSize}
  /\ off + len <= NPages * PageSize
  /\ pc = "start" /\ wr = {} /\ jit = 1 /\ dirty = {} /\ fault = FALSE

ProtLen == CASE ProtectLen = "patch" -> len
             [] ProtectLen = "eight" -> IF sys = "macos" THEN Eight ELSE len
             [] ProtectLen = "firstpage" -> IF sys = "macos" THEN len ELSE 1

\* make_memory_writable_and_executable / mach_vm_protect(rw|copy): every page holding a byte of [off, off + ProtLen)
Protect ==
  /\ pc = "start" /\ kind = "entry"
  /\ wr' = wr \cup PagesOf(off, ProtLen)
  /\ pc' = IF sys = "macos" THEN "jitoff" ELSE "copy"
  /\ UNCHANGED <<sys, kind, off, len, jit, dirty, fault>>
\* a trampoline needs no protection call: fresh rwx memory
TrampStart ==
  /\ pc = "start" /\ kind = "tramp"
  /\ pc' = IF sys = "macos" THEN "jitoff" ELSE "copy"
  /\ UNCHANGED <<sys, kind, off, len, wr, jit, dirty, fault>>
JitOff ==
  /\ pc = "jitoff" /\ jit' = 0 /\ pc' = "copy"
  /\ UNCHANGED <<sys, kind, off, len, wr, dirty, fault>>
\* ptr::copy_nonoverlapping: a store into a page that is not writable is a fault, not a panic
Copy ==
  /\ pc = "copy"
  /\ IF \A pg \in PagesOf(off, len) : Writable(pg)
       THEN /\ dirty' = dirty \cup Range(off, len) /\ fault' = fault
       ELSE /\ fault' = TRUE /\ dirty' = dirty
  /\ pc' = IF sys = "macos" THEN "jiton" ELSE "flush"
  /\ UNCHANGED <<sys, kind, off, len, wr, jit>>
JitOn ==
  /\ pc = "jiton" /\ jit' = (IF JitBack \/ kind = "entry" THEN 1 ELSE 0) /\ pc' = "flush"
  /\ UNCHANGED <<sys, kind, off, len, wr, dirty, fault>>
\* clear_cache(dest, dest + len): __clear_cache / FlushInstructionCache / sys_icache_invalidate
Flush ==
  /\ pc = "flush"
  /\ dirty' = IF sys = "macos" /\ ~TrampFlush THEN dirty ELSE dirty \ Range(off, len)
  /\ pc' = IF sys = "macos" /\ kind = "entry" THEN "reprotect" ELSE "done"
  /\ UNCHANGED <<sys, kind, off, len, wr, jit, fault>>
\* macOS entry: sys_dcache_flush; mach_vm_protect(alias, LEN, rx); sys_icache_invalidate(func, len); remap back
Reprotect ==
  /\ pc = "reprotect"
  /\ wr' = wr \ PagesOf(off, ProtLen)
  /\ dirty' = dirty \ Range(off, len)
  /\ pc' = "done"
  /\ UNCHANGED <<sys, kind, off, len, jit, fault>>
Done == pc = "done" /\ UNCHANGED vars

Next == Protect \/ TrampStart \/ JitOff \/ Copy \/ JitOn \/ Flush \/ Reprotect \/ Done
Spec == Init /\ [][Next]_vars

\* C01 ("fails loudly instead"): no store into a page the system does not let the thread write
NoFault == ~fault
\* C17: back with the caller, nothing written is still waiting for its instruction-cache request
FlushedAtReturn == pc = "done" => dirty = {}
\* C01 on macOS: back with the caller the thread can execute its trampolines
ExecModeAtReturn == pc = "done" => jit = 1
\* macOS keeps W^X on the alias: nothing stays writable behind the call
NoWritableLeftMac == (pc = "done" /\ sys = "macos" /\ ProtectLen = "patch") => wr = {}
=============================================================================
