SPECIFICATION TraceSpec
CONSTANTS
  Props = {"C01"}
CONSTRAINT Track
POSTCONDITION Post
CHECK_DEADLOCK FALSE
