SPECIFICATION Spec
CONSTANTS
  Callers = {"a", "b", "c"}
  N = 3
  MaxCalls = 3
  AtomicCount = "fetchAdd"
  Compare = "ge"
INVARIANT Budget Accounting RejectsFree ExitVerdict
CHECK_DEADLOCK FALSE
