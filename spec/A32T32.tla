------------------------------- MODULE A32T32 -------------------------------
(* 32-bit ARM: the literal-load + interworking-branch sequences of patch_arm.rs *)
(* decoded from bytes.  Addresses are 4-byte little-endian words.               *)
(*  A32: LDR Rt,[PC,#+/-imm12] (E59F/E51F) | BX Rm (E12FFF1m)                    *)
(*  T32: LDR Rt,[PC,#imm8*4] (T1: 01001 Rt imm8) | LDR.W Rt,[PC,#+/-imm12] (T2:   *)
(*       F8DF/F85F) | BX Rm (010001110 Rm 000) | NOP (46C0 = mov r8,r8; BF00)     *)
(* PC reads as the instruction address + 8 (A32) / + 4 (T32); a Thumb literal     *)
(* load uses Align(PC, 4).  BX to an address with bit 0 set enters Thumb state.   *)
EXTENDS Word, FiniteSets

H(bs, off) == bs[off + 1] + 256 * bs[off + 2]            \* halfword at byte offset off (value < 65536)

\* --- A32 ---
A32Word(bs, off) == Slice(bs, off + 1, 4)
IsLdrLitA(w) == w[4] = 229 /\ w[3] \in {159, 31}         \* E5 9F (U=1) / E5 1F (U=0): cond=AL, P=1, W=0, L=1, Rn=PC
LdrARt(w)    == w[2] \div 16
LdrAImm(w)   == (w[2] % 16) * 256 + w[1]
LdrAUp(w)    == w[3] = 159
IsBxA(w)     == w[4] = 225 /\ w[3] = 47 /\ w[2] = 255 /\ w[1] \div 16 = 1      \* E1 2F FF 1m
BxARm(w)     == w[1] % 16

\* --- T32 ---
IsLdrLitT1(h) == h \div 2048 = 9                          \* 01001 Rt imm8
LdrT1Rt(h)    == (h \div 256) % 8
LdrT1Imm(h)   == (h % 256) * 4
IsBxT(h)      == h \div 128 = 142 /\ h % 8 = 0            \* 010001110 Rm 000
BxTRm(h)      == (h \div 8) % 16
IsNopT(h)     == h \in {18112, 48896}                     \* 46C0, BF00
IsLdrLitT2a(h) == h \in {63711, 63583}                    \* F8DF (U=1) / F85F (U=0)
LdrT2Rt(h2)   == h2 \div 4096
LdrT2Imm(h2)  == h2 % 4096

Regs0 == [n \in 0..15 |-> [i \in 1..4 |-> 165]]          \* arbitrary on entry (poison)
St0(pc, thumb) == [pc |-> pc, thumb |-> thumb, r |-> Regs0, written |-> {}, status |-> "run", n |-> 0, loads |-> {}]

\* one segment: base (4-byte word) + bytes
InSeg(seg, a, n) == LET d == Sub(a, seg.base) IN IsSmall(d) /\ Small(d) + n <= Len(seg.bytes)
Off(seg, a) == Small(Sub(a, seg.base))
LoadWord(seg, a) == Slice(seg.bytes, Off(seg, a) + 1, 4)

Bx(st, target) ==
  [st EXCEPT !.pc = AlignLow(target, 1), !.thumb = (target[1] % 2 = 1), !.n = @ + 1]

StepArm(seg, st) ==
  IF ~InSeg(seg, st.pc, 2) THEN [st EXCEPT !.status = "left"]
  ELSE IF ~st.thumb THEN
    IF ~InSeg(seg, st.pc, 4) THEN [st EXCEPT !.status = "left"]
    ELSE LET w == A32Word(seg.bytes, Off(seg, st.pc)) IN
      IF IsLdrLitA(w) THEN
        LET pcv == AddNat(st.pc, 8)
            ea  == IF LdrAUp(w) THEN AddNat(pcv, LdrAImm(w)) ELSE Sub(pcv, FromNat(LdrAImm(w), 4))
        IN IF InSeg(seg, ea, 4)
           THEN [st EXCEPT !.r[LdrARt(w)] = LoadWord(seg, ea), !.written = @ \cup {LdrARt(w)},
                           !.loads = @ \cup {ea}, !.pc = AddNat(@, 4), !.n = @ + 1]
           ELSE [st EXCEPT !.status = "badload"]
      ELSE IF IsBxA(w) THEN Bx(st, st.r[BxARm(w)])
      ELSE [st EXCEPT !.status = "unknown"]
  ELSE LET h == H(seg.bytes, Off(seg, st.pc)) IN
    IF IsNopT(h) THEN [st EXCEPT !.pc = AddNat(@, 2), !.n = @ + 1]
    ELSE IF IsLdrLitT1(h) THEN
      LET ea == AddNat(AlignLow(AddNat(st.pc, 4), 2), LdrT1Imm(h)) IN
      IF InSeg(seg, ea, 4)
      THEN [st EXCEPT !.r[LdrT1Rt(h)] = LoadWord(seg, ea), !.written = @ \cup {LdrT1Rt(h)},
                      !.loads = @ \cup {ea}, !.pc = AddNat(@, 2), !.n = @ + 1]
      ELSE [st EXCEPT !.status = "badload"]
    ELSE IF IsLdrLitT2a(h) /\ InSeg(seg, st.pc, 4) THEN
      LET h2 == H(seg.bytes, Off(seg, st.pc) + 2)
          al == AlignLow(AddNat(st.pc, 4), 2)
          ea == IF h = 63711 THEN AddNat(al, LdrT2Imm(h2)) ELSE Sub(al, FromNat(LdrT2Imm(h2), 4))
      IN IF InSeg(seg, ea, 4)
         THEN [st EXCEPT !.r[LdrT2Rt(h2)] = LoadWord(seg, ea), !.written = @ \cup {LdrT2Rt(h2)},
                         !.loads = @ \cup {ea}, !.pc = AddNat(@, 4), !.n = @ + 1]
         ELSE [st EXCEPT !.status = "badload"]
    ELSE IF IsBxT(h) THEN Bx(st, st.r[BxTRm(h)])
    ELSE [st EXCEPT !.status = "unknown"]

RECURSIVE RunArmR(_, _, _)
RunArmR(seg, st, fuel) ==
  IF st.status # "run" THEN st ELSE IF fuel = 0 THEN [st EXCEPT !.status = "fuel"] ELSE RunArmR(seg, StepArm(seg, st), fuel - 1)
RunArm(seg, pc, thumb) == RunArmR(seg, St0(pc, thumb), 6)

\* AAPCS32: r4-r8, r10, r11 and sp are callee-saved; r9 is counted as preserved (as on Linux);
\* what a veneer may use: ip (r12).  r0-r3 carry arguments, lr the return address.
ArmScratch == {12}
=============================================================================
