----------------------------- MODULE MC_LockApi -----------------------------
(* Schedule generator for the lock-step executor (spec -> impl for C04).  Only  *)
(* schedules a real mutex reproduces deterministically are generated: a thread  *)
(* that begins while the lock is free acquires in the same step; while a        *)
(* thread waits nobody else begins on a free lock; at most one thread waits.    *)
(* (MC_Lock explores ALL interleavings; this module only picks replayable ones.)*)
EXTENDS MC_Lock, Json

VARIABLES hist
lvars == <<vars, hist>>

Waiting == {t \in Threads : th[t].pc = "waiting"}
Rec0(t, a) == [act |-> a, t |-> t]

BeginFree(t, k) ==
  /\ th[t].pc = "idle" /\ th[t].lives < MaxLives /\ lock = Free /\ Waiting = {}
  /\ lock' = t
  /\ th' = [th EXCEPT ![t].pc = "user", ![t].kind = k, ![t].panicking = FALSE, ![t].panics = 0]
  /\ inj' = [inj EXCEPT ![t] = [guards |-> <<>>, verifiers |-> <<>>]]
  /\ hist' = Append(hist, [act |-> "Begin", t |-> t, kind |-> k, blocks |-> FALSE])
  /\ UNCHANGED <<poisoned, cur, dropst, code, orig, tramp, rw, dirty, ctr, aborted, fault, inflight>>

BeginBlocked(t, k) ==
  /\ th[t].lives < MaxLives /\ lock # Free /\ Waiting = {}
  /\ Begin(t, k)
  /\ hist' = Append(hist, [act |-> "Begin", t |-> t, kind |-> k, blocks |-> TRUE])

Q(A) == A /\ UNCHANGED hist

CallF(t) ==
  /\ AtUser(t) /\ ~th[t].panicking /\ lock = t
  /\ hist # <<>> /\ hist[Len(hist)].act # "Call"
  /\ hist' = Append(hist, [act |-> "Call", t |-> t,
                           out |-> IF Resolve(F).kind = "jump" THEN Resolve(F).fake ELSE Resolve(F).kind])
  /\ UNCHANGED vars

NextS ==
  \E t \in Threads :
    \/ \E k \in GuardKinds : BeginFree(t, k) \/ BeginBlocked(t, k)
    \/ Acquire(t) /\ hist' = Append(hist, Rec0(t, "Acquired"))
    \/ UserPanic(t) /\ hist' = Append(hist, [act |-> "Release", t |-> t, how |-> "panic"])
    \/ /\ Len(Guards(t)) = 0 /\ InstallBegin(t, F, "jump", FakeOf[t], NoSite, -1, "ok") /\ UNCHANGED hist
    \/ Q(\E s \in PatchSizes : GatePass(t, s)) \/ Q(\E id \in TrampIds : AllocOk(t, id))
    \/ Q(WriteTramp(t)) \/ Q(FlushTramp(t)) \/ Q(ReadOrig(t)) \/ Q(MprotectOk(t))
    \/ Q(WriteEntry(t)) \/ Q(FlushEntryStep(t)) \/ Q(PushGuard(t))
    \/ InstallEnd(t) /\ hist' = Append(hist, Rec0(t, "Installed"))
    \/ CallF(t)
    \/ DropBegin(t) /\ hist' = Append(hist, [act |-> "Release", t |-> t, how |-> "drop"])
    \/ Q(\E i \in 1..MaxTramps : Restore(t, i) \/ FlushRestore(t, i) \/ Unmap(t, i))
    \/ Q(GuardsDone(t)) \/ Q(Verify(t))
    \/ Unlock(t) /\ hist' = Append(hist, Rec0(t, "Released"))

SpecS == Init /\ hist = <<>> /\ [][NextS]_lvars

\* one representative order of the steps inside install / drop; a thread inside a library
\* call runs to its end before anyone else moves (the executor waits for each call to return)
Busy == {t \in Threads : th[t].pc \in {"install", "drop", "verify"}}
OneBusy == Cardinality(Busy) <= 1
AtomicAC == Busy # {} => \A u \in Threads \ Busy : th'[u] = th[u]

AllDone == \A t \in Threads : th[t].pc = "idle" /\ th[t].lives = MaxLives
Emit == AllDone => PrintT(<<"REPLAY", ToJson(hist)>>)
=============================================================================
