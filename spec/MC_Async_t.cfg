SPECIFICATION Spec
CONSTANTS
  Asyncs = {"a1", "a2", "a3"}
  Values = {"v1", "v2"}
  MaxSteps = 6
  RestoreOnDrop = TRUE
  IsolateSiblings = TRUE
  Faults = FALSE
INVARIANT FakedOnlyWhileAlive LastFakeWins Emit
CHECK_DEADLOCK FALSE
