------------------------------- MODULE MC_Sig -------------------------------
(* Design level of the two gates over the generated type families (read from    *)
(* the JSON the harness functions were generated from).  The implementation      *)
(* compares the compiler-rendered type names; the property is structural.        *)
(*   RenderingDecides: on the family, equal text <=> structurally the same type  *)
(*   BoolExact: the boolean gate admits exactly the return type `bool`; with the *)
(*   deviation BoolGate = "suffix" TLC exhibits `fn() -> fn() -> bool`.           *)
EXTENDS Naturals, Sequences, TLC, Json, IOUtils

CONSTANT BoolGate
Fam == JsonDeserialize(IOEnv.FAMILY)
Types == Fam.types
Bools == Fam.bools

VARIABLE done
Init == done = FALSE
Next == ~done /\ done' = TRUE
Spec == Init /\ [][Next]_done

Same(a, b) == a.abi = b.abi /\ a.unsafe = b.unsafe /\ a.params = b.params /\ a.ret = b.ret
RenderingDecides == \A i, j \in 1..Len(Types) : (Types[i].text = Types[j].text) <=> Same(Types[i], Types[j])
Distinct == \A i, j \in 1..Len(Types) : (i # j /\ Types[i].judged /\ Types[j].judged) => ~Same(Types[i], Types[j])
BoolAccepts(tokens) == IF BoolGate = "exact" THEN tokens = <<"bool">> ELSE tokens[Len(tokens)] = "bool"
BoolExact == \A k \in 1..Len(Bools) : BoolAccepts(Bools[k].tokens) <=> Bools[k].is_bool
=============================================================================
