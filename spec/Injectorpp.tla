------------------------------ MODULE Injectorpp ------------------------------
(***************************************************************************)
(* The injector as a state machine over four pieces of process-global      *)
(* state: code memory (entry slots of patchable functions + trampolines),  *)
(* the address space (owned trampoline mappings, page protections), the    *)
(* process-wide lock, and the per-site call counters.                      *)
(*                                                                         *)
(* One action per critical section of the implementation.  An installation *)
(* is NOT one action and NOT a fixed sequence: it is a set of steps with   *)
(* the partial order the properties need and nothing more (DESIGN.md 3.3). *)
(* Behaviours of the pinned code that the properties forbid are kept as    *)
(* named, switchable deviations (constants below); the configurations that *)
(* decide properties have every deviation off.                             *)
(***************************************************************************)
EXTENDS Naturals, Integers, Sequences, FiniteSets, TLC

CONSTANTS
  Threads,      \* thread ids
  Funcs,        \* patchable functions
  Fakes,        \* replacement functions (jump targets)
  SlotLen,      \* cells watched at each entry: the slot proper + neighbour cells
  MaxPatch,     \* the slot proper is cells 1..MaxPatch (16 bytes on x86-64)
  PatchSizes,   \* possible entry-patch lengths, each <= MaxPatch
  Split,        \* Split[f]: cells 1..Split[f] are on the first page, the rest on the next
  MaxTramps,    \* trampoline ids 1..MaxTramps
  NVals,        \* expected call counts offered to installations; -1 = no count (plain fake)
  BoolSet,      \* subset of BoolVals offered to forced-boolean installations
  GuardKinds,   \* subset of {"inj", "prev"}
  MatchVals,    \* subset of BOOLEAN: do calls satisfy the fake's `when` condition
  Sites,        \* fake! expansion sites (source locations owning a static counter)
  \* ---- deviations (all "off" values listed first) ----
  DropOrder,            \* "reverse" | "forward"
  ResetCounterOnInstall,\* TRUE | FALSE
  MprotectSpan,         \* "range" | "firstPage"
  VerifySilent,         \* TRUE (verifier silent while panicking) | FALSE
  SwallowPoison,        \* TRUE | FALSE
  UnlockFirst,          \* FALSE | TRUE  (lock released before guards are restored)
  FlushEntry,           \* TRUE | FALSE  (entry writes are followed by a flush)
  UnmapOnDrop,          \* TRUE | FALSE
  Linear,               \* TRUE: installation steps in the one canonical order (replay generation)
  \* ---- behaviours beyond the listed properties (documented hazards; FALSE/{} in the deciding configs)
  AllowNested,          \* a thread that already holds a guard asks for another one (self-deadlock)
  OthersCall,           \* "never" | "atUser" | "always": when threads that hold nothing call patched functions
  KeepPagesWritable,    \* TRUE = what the kernel does (pages stay writable after the first patch)
  Regen,                \* TRUE: while no injector exists the environment may replace a function's code (JIT output
                        \* regenerated, a plugin unloaded and loaded again at the same address); what a lifetime restores is
                        \* what IT found, not what an earlier lifetime found
  VerifierStep,         \* "first" (the counter is reset and the verifier stored before anything else) | "last" (deviation:
                        \* after the fake has gone live -- a call that arrives in between is counted against the old value
                        \* or wiped out by the reset)
  RestoreMayFail,       \* TRUE: the page of a patched function may refuse to become writable again when the patch is to be
                        \* undone (environment); the guard's destructor panics, nothing is restored or unmapped by it
  CatchRefusals,        \* TRUE: the caller may catch the panic of a refused or failed installation (catch_unwind around the
                        \* installing call) and go on using the same injector
  LockByHand,           \* deviation: the lock is released by a statement at the end of the destructor instead of by the
                        \* field's own drop, so a destructor that unwinds keeps it
  ForeignReuse,         \* TRUE: the rest of the process may take over an address the library has given back (a released
                        \* trampoline page) and keep its own memory there
  AllocAt,              \* "hint" (the kernel never places a mapping over existing memory) | "fixed" (deviation: the
                        \* allocator insists on a remembered address, whatever lies there now)
  SavedFrom,            \* "install" | "first" (deviation: the bytes to restore come from a process-wide table filled
                        \* when the function was first seen and never invalidated) | "ptr" (deviation: they come from a
                        \* snapshot taken when the typed pointer was made, possibly in an earlier lifetime)
  TrampFlushed          \* FALSE = the macOS variant of the pinned tree: clear_cache() was empty there and only
                        \* patch_function() invalidated the instruction cache, so trampoline contents written through
                        \* inject_asm_code() got no platform flush.  Confirmed on the macOS build of common.rs run against OS
                        \* shims (Trace_Flush) and repaired in /repo (12ba8e5); kept as a deviation for `check.py selftest`

Free   == "free"
NoSite == 0
NoCtx  == [f |-> "none"]
BoolVals == {"true", "false"}

VARIABLES
  lock,      \* Free or the holding thread
  poisoned,  \* std::sync::Mutex poison flag
  th,        \* th[t] = [pc, kind, panicking, panics, lives]
  inj,       \* inj[t] = [guards, verifiers] of the thread's live injector
  cur,       \* cur[t] = context of the installation in progress (or NoCtx)
  dropst,    \* dropst[t] = [restored, unmapped] : sets of guard indexes, during drop
  code,      \* code[f] : 1..SlotLen -> cell value
  orig,      \* orig[f] : the function's own cells (changed only by the environment: Regenerate)
  tramp,     \* tramp[id] = [state, content, frees, orphan]
  rw,        \* set of <<f, page>> made writable
  dirty,     \* set of locations written but not yet flushed
  ctr,       \* ctr[site] : the static call counter of a fake! expansion site
  aborted,   \* a panic was raised while panicking (process abort)
  fault,     \* a write hit a page that was not writable / control went wild
  inflight   \* inflight[t]: trampoline id a non-holder thread has branched to but not yet executed (0 = none)

vars == <<lock, poisoned, th, inj, cur, dropst, code, orig, tramp, rw, dirty, ctr, aborted, fault, inflight>>

-----------------------------------------------------------------------------
(* cells *)
OrigCell(f, i)   == <<"o", f, i>>
PatchCell(id, i) == <<"p", id, i>>
PatchCells(id, n) == [i \in 1..n |-> PatchCell(id, i)]
Page(f, i) == IF i <= Split[f] THEN 1 ELSE 2
EntryLoc(f, i) == <<"e", f, i>>
TrampLoc(id)   == <<"t", id>>

Overlay(old, new) == [i \in 1..Len(old) |-> IF i <= Len(new) THEN new[i] ELSE old[i]]

TrampIds == 1..MaxTramps
FreshTramps == {id \in TrampIds : tramp[id].state = "unmapped"}

Holding(t) == lock = t
AtUser(t) == th[t].pc = "user"

Guards(t) == inj[t].guards
Verifiers(t) == inj[t].verifiers

(* API-level meaning: the newest guard for f decides *)
GuardIdxFor(t, f) == {i \in 1..Len(Guards(t)) : Guards(t)[i].f = f}
Effective(t, f) ==
  IF GuardIdxFor(t, f) = {} THEN [kind |-> "orig"]
  ELSE LET top == CHOOSE m \in GuardIdxFor(t, f) : \A j \in GuardIdxFor(t, f) : j <= m
       IN  tramp[Guards(t)[top].tid].content

(* machine-level meaning: follow the cells actually in memory *)
Resolve(f) ==
  IF \A i \in 1..MaxPatch : code[f][i] = orig[f][i] THEN [kind |-> "orig"]
  ELSE LET c == code[f][1] IN
       IF /\ c[1] = "p"
          /\ c[2] \in TrampIds
          /\ tramp[c[2]].size \in PatchSizes
          /\ \A j \in 1..tramp[c[2]].size : code[f][j] = PatchCell(c[2], j)
       THEN IF tramp[c[2]].state = "live" /\ tramp[c[2]].written
            THEN tramp[c[2]].content ELSE [kind |-> "wild"]
       ELSE [kind |-> "wild"]

-----------------------------------------------------------------------------
Init ==
  /\ lock = Free /\ poisoned = FALSE
  /\ th = [t \in Threads |-> [pc |-> "idle", kind |-> "none", panicking |-> FALSE, panics |-> 0, lives |-> 0, dropfail |-> FALSE]]
  /\ inj = [t \in Threads |-> [guards |-> <<>>, verifiers |-> <<>>]]
  /\ cur = [t \in Threads |-> NoCtx]
  /\ dropst = [t \in Threads |-> [restored |-> {}, unmapped |-> {}]]
  /\ orig = [f \in Funcs |-> [i \in 1..SlotLen |-> OrigCell(f, i)]]
  /\ code = orig
  /\ tramp = [id \in TrampIds |-> [state |-> "unmapped", content |-> [kind |-> "none"], size |-> 0,
                                   written |-> FALSE, frees |-> 0, orphan |-> FALSE, over |-> FALSE]]
  /\ rw = {} /\ dirty = {}
  /\ ctr = [s \in Sites |-> 0]
  /\ aborted = FALSE /\ fault = FALSE
  /\ inflight = [t \in Threads |-> 0]

-----------------------------------------------------------------------------
(* lock *)
Begin(t, k) ==
  /\ th[t].pc = "idle"
  /\ th' = [th EXCEPT ![t].pc = "waiting", ![t].kind = k, ![t].panicking = FALSE, ![t].panics = 0, ![t].dropfail = FALSE]
  /\ UNCHANGED <<lock, poisoned, inj, cur, dropst, code, orig, tramp, rw, dirty, ctr, aborted, fault, inflight>>

Acquire(t) ==
  /\ th[t].pc = "waiting" /\ lock = Free
  /\ (SwallowPoison \/ ~poisoned)
  /\ lock' = t
  /\ th' = [th EXCEPT ![t].pc = "user"]
  /\ inj' = [inj EXCEPT ![t] = [guards |-> <<>>, verifiers |-> <<>>]]
  /\ UNCHANGED <<poisoned, cur, dropst, code, orig, tramp, rw, dirty, ctr, aborted, fault, inflight>>

-----------------------------------------------------------------------------
(* panics.  A panic raised while the thread is already panicking aborts.   *)
RaisePanic(t, nextpc) ==
  IF th[t].panicking
  THEN /\ aborted' = TRUE
       /\ th' = [th EXCEPT ![t].pc = "dead", ![t].panics = @ + 1]
  ELSE /\ aborted' = aborted
       /\ th' = [th EXCEPT ![t].pc = nextpc, ![t].panicking = TRUE, ![t].panics = @ + 1]

UserPanic(t) ==
  /\ AtUser(t) /\ ~th[t].panicking
  /\ RaisePanic(t, "drop")
  /\ dropst' = [dropst EXCEPT ![t] = [restored |-> {}, unmapped |-> {}]]
  /\ UNCHANGED <<lock, poisoned, inj, cur, code, orig, tramp, rw, dirty, ctr, fault, inflight>>

-----------------------------------------------------------------------------
(* installation: context and steps *)
Done(t, s) == s \in cur[t].done
Mark(t, s) == [cur EXCEPT ![t].done = @ \cup {s}]

\* canonical order used when Linear = TRUE
Canon == <<"verifier", "gate", "alloc", "wtramp", "ftramp", "read", "mprot", "wentry", "fentry", "push">>
CanonPos(s) == CHOOSE i \in 1..Len(Canon) : Canon[i] = s
LinearOk(t, s) ==
  ~Linear \/ \A i \in 1..(CanonPos(s) - 1) :
                Canon[i] \in cur[t].done \/ (Canon[i] = "verifier" /\ cur[t].n = -1)

InstallBegin(t, f, kind, fake, site, n, gate) ==
  /\ AtUser(t) /\ th[t].kind = "inj" /\ ~th[t].panicking
  /\ cur' = [cur EXCEPT ![t] = [f |-> f, kind |-> kind, fake |-> fake, n |-> n, gate |-> gate,
                                 site |-> site, done |-> {}, tid |-> 0, size |-> 0, saved |-> <<>>]]
  /\ th' = [th EXCEPT ![t].pc = "install"]
  /\ UNCHANGED <<lock, poisoned, inj, dropst, code, orig, tramp, rw, dirty, ctr, aborted, fault, inflight>>

InInstall(t) == th[t].pc = "install"

\* will_execute stores the verifier before anything else is looked at (n = -1: no count)
PushVerifier(t) ==
  /\ InInstall(t) /\ cur[t].gate # "abandon" /\ cur[t].n >= 0 /\ ~Done(t, "verifier")
  /\ IF VerifierStep = "first" THEN ~Done(t, "gate") /\ LinearOk(t, "verifier") ELSE Done(t, "fentry")
  /\ LET s == cur[t].site IN
       /\ cur' = Mark(t, "verifier")
       /\ inj' = [inj EXCEPT ![t].verifiers = Append(@, [site |-> s, n |-> cur[t].n])]
       /\ ctr' = IF ResetCounterOnInstall THEN [ctr EXCEPT ![s] = 0] ELSE ctr
  /\ UNCHANGED <<lock, poisoned, th, dropst, code, orig, tramp, rw, dirty, aborted, fault, inflight>>

\* signature / bool / null checks: refuse before anything is modified
GatePass(t, size) ==
  /\ InInstall(t) /\ ~Done(t, "gate") /\ cur[t].gate = "ok" /\ LinearOk(t, "gate")
  /\ (cur[t].n >= 0 /\ VerifierStep = "first" => Done(t, "verifier"))
  /\ size \in PatchSizes
  /\ cur' = [cur EXCEPT ![t].done = @ \cup {"gate"}, ![t].size = size]
  /\ UNCHANGED <<lock, poisoned, th, inj, dropst, code, orig, tramp, rw, dirty, ctr, aborted, fault, inflight>>

GateRefuse(t) ==
  /\ InInstall(t) /\ ~Done(t, "gate") /\ cur[t].gate \notin {"ok", "abandon"} /\ LinearOk(t, "gate")
  /\ (cur[t].n >= 0 => Done(t, "verifier"))
  /\ RaisePanic(t, "drop")
  /\ cur' = [cur EXCEPT ![t] = NoCtx]
  /\ dropst' = [dropst EXCEPT ![t] = [restored |-> {}, unmapped |-> {}]]
  /\ UNCHANGED <<lock, poisoned, inj, code, orig, tramp, rw, dirty, ctr, fault, inflight>>

\* the same three failures of an installation, caught by the caller: the panic is raised and counted, nothing unwinds past the
\* installing call, the lifetime goes on with the same injector (a verifier stored before the refusal stays stored)
CaughtBy(t) ==
  /\ CatchRefusals /\ ~th[t].panicking
  /\ th' = [th EXCEPT ![t].pc = "user", ![t].panics = @ + 1]
  /\ cur' = [cur EXCEPT ![t] = NoCtx]
GateRefuseCaught(t) ==
  /\ InInstall(t) /\ ~Done(t, "gate") /\ cur[t].gate \notin {"ok", "abandon"} /\ LinearOk(t, "gate")
  /\ (cur[t].n >= 0 => Done(t, "verifier"))
  /\ CaughtBy(t)
  /\ UNCHANGED <<lock, poisoned, inj, dropst, code, orig, tramp, rw, dirty, ctr, aborted, fault, inflight>>
AllocFailCaught(t) ==
  /\ InInstall(t) /\ Done(t, "gate") /\ ~Done(t, "alloc") /\ LinearOk(t, "alloc")
  /\ CaughtBy(t)
  /\ UNCHANGED <<lock, poisoned, inj, dropst, code, orig, tramp, rw, dirty, ctr, aborted, fault, inflight>>

Content(t) ==
  IF cur[t].kind = "bool" THEN [kind |-> "bool", v |-> cur[t].fake]
  ELSE [kind |-> "jump", fake |-> cur[t].fake, site |-> cur[t].site, n |-> cur[t].n]

AllocOk(t, id) ==
  /\ InInstall(t) /\ Done(t, "gate") /\ ~Done(t, "alloc") /\ LinearOk(t, "alloc")
  /\ \/ id \in FreshTramps /\ \A j \in FreshTramps : id <= j   \* ids are interchangeable: take the least
     \/ AllocAt = "fixed" /\ tramp[id].state = "foreign"       \* deviation: mapped over somebody else's memory
  /\ tramp' = [tramp EXCEPT ![id] = [state |-> "live", content |-> [kind |-> "none"], size |-> cur[t].size,
                                     written |-> FALSE, frees |-> 0, orphan |-> FALSE,
                                     over |-> (tramp[id].state = "foreign")]]
  /\ cur' = [cur EXCEPT ![t].done = @ \cup {"alloc"}, ![t].tid = id]
  /\ UNCHANGED <<lock, poisoned, th, inj, dropst, code, orig, rw, dirty, ctr, aborted, fault, inflight>>

\* orphaning: a trampoline allocated by an installation that then fails is never freed
Orphaned(t) == IF cur[t].tid # 0 THEN [tramp EXCEPT ![cur[t].tid].orphan = TRUE] ELSE tramp

AllocFail(t) ==
  /\ InInstall(t) /\ Done(t, "gate") /\ ~Done(t, "alloc") /\ LinearOk(t, "alloc")
  /\ RaisePanic(t, "drop")
  /\ cur' = [cur EXCEPT ![t] = NoCtx]
  /\ dropst' = [dropst EXCEPT ![t] = [restored |-> {}, unmapped |-> {}]]
  /\ UNCHANGED <<lock, poisoned, inj, code, orig, tramp, rw, dirty, ctr, fault, inflight>>

WriteTramp(t) ==
  /\ InInstall(t) /\ Done(t, "alloc") /\ ~Done(t, "wtramp") /\ LinearOk(t, "wtramp")
  /\ tramp' = [tramp EXCEPT ![cur[t].tid].content = Content(t), ![cur[t].tid].written = TRUE]
  /\ dirty' = dirty \cup {TrampLoc(cur[t].tid)}
  /\ cur' = Mark(t, "wtramp")
  /\ UNCHANGED <<lock, poisoned, th, inj, dropst, code, orig, rw, ctr, aborted, fault, inflight>>

FlushTramp(t) ==
  /\ InInstall(t) /\ Done(t, "wtramp") /\ ~Done(t, "ftramp") /\ LinearOk(t, "ftramp")
  /\ dirty' = IF TrampFlushed THEN dirty \ {TrampLoc(cur[t].tid)} ELSE dirty
  /\ cur' = Mark(t, "ftramp")
  /\ UNCHANGED <<lock, poisoned, th, inj, dropst, code, orig, tramp, rw, ctr, aborted, fault, inflight>>

\* what the guard will write back.  "install": the cells found at this moment.  "first": the function's first-seen cells.
\* "ptr" (deviation): a snapshot taken when the typed pointer to the function was MADE -- which may have been during an
\* earlier lifetime, while the function carried an earlier patch (any trampoline id) -- instead of at installation time
SavedCands(t) ==
  LET f == cur[t].f  n == cur[t].size IN
  CASE SavedFrom = "install" -> {SubSeq(code[f], 1, n)}
    [] SavedFrom = "first" -> {[i \in 1..n |-> OrigCell(f, i)]}
    [] SavedFrom = "ptr" -> {SubSeq(code[f], 1, n)} \cup
                            (IF th[t].lives >= 1 THEN {PatchCells(j, n) : j \in TrampIds} ELSE {})
ReadOrig(t) ==
  /\ InInstall(t) /\ Done(t, "gate") /\ ~Done(t, "read") /\ ~Done(t, "wentry") /\ LinearOk(t, "read")
  /\ \E snap \in SavedCands(t) :
       cur' = [cur EXCEPT ![t].done = @ \cup {"read"}, ![t].saved = snap]
  /\ UNCHANGED <<lock, poisoned, th, inj, dropst, code, orig, tramp, rw, dirty, ctr, aborted, fault, inflight>>

\* environment: an address the library has given back now belongs to somebody else (at most one at a time here)
ForeignTake(id) ==
  /\ ForeignReuse /\ tramp[id].state = "unmapped" /\ tramp[id].frees = 0
  /\ \A j \in TrampIds : tramp[j].state # "foreign"
  /\ \E j \in TrampIds : j # id /\ tramp[j].state = "unmapped"        \* the window is never exhausted by it
  /\ tramp' = [tramp EXCEPT ![id].state = "foreign"]
  /\ UNCHANGED <<lock, poisoned, th, inj, cur, dropst, code, orig, rw, dirty, ctr, aborted, fault, inflight>>

\* environment: the code of a function is replaced while nobody holds the lock and nothing is installed on it
RegenTag(tag) == IF tag = "o" THEN "r1" ELSE IF tag = "r1" THEN "r2" ELSE "r3"
Regenerate(f) ==
  /\ Regen /\ lock = Free /\ code[f] = orig[f] /\ orig[f][1][1] \in {"o", "r1", "r2"}
  /\ \A t \in Threads : th[t].pc \in {"idle", "waiting"} /\ inflight[t] = 0
  /\ orig' = [orig EXCEPT ![f] = [i \in 1..SlotLen |-> <<RegenTag(orig[f][1][1]), f, i>>]]
  /\ code' = [code EXCEPT ![f] = [i \in 1..SlotLen |-> <<RegenTag(orig[f][1][1]), f, i>>]]
  /\ UNCHANGED <<lock, poisoned, th, inj, cur, dropst, tramp, rw, dirty, ctr, aborted, fault, inflight>>

SpanPages(f, size) ==
  IF MprotectSpan = "range" THEN {<<f, Page(f, i)>> : i \in 1..size} ELSE {<<f, Page(f, 1)>>}

MprotectOk(t) ==
  /\ InInstall(t) /\ Done(t, "gate") /\ ~Done(t, "mprot") /\ LinearOk(t, "mprot")
  /\ rw' = rw \cup SpanPages(cur[t].f, cur[t].size)
  /\ cur' = Mark(t, "mprot")
  /\ UNCHANGED <<lock, poisoned, th, inj, dropst, code, orig, tramp, dirty, ctr, aborted, fault, inflight>>

MprotectFail(t) ==
  /\ InInstall(t) /\ Done(t, "gate") /\ ~Done(t, "mprot") /\ ~Done(t, "wentry") /\ LinearOk(t, "mprot")
  /\ RaisePanic(t, "drop")
  /\ tramp' = Orphaned(t)
  /\ cur' = [cur EXCEPT ![t] = NoCtx]
  /\ dropst' = [dropst EXCEPT ![t] = [restored |-> {}, unmapped |-> {}]]
  /\ UNCHANGED <<lock, poisoned, inj, code, orig, rw, dirty, ctr, fault, inflight>>

MprotectFailCaught(t) ==
  /\ InInstall(t) /\ Done(t, "gate") /\ ~Done(t, "mprot") /\ ~Done(t, "wentry") /\ LinearOk(t, "mprot")
  /\ CaughtBy(t)
  /\ tramp' = Orphaned(t)
  /\ UNCHANGED <<lock, poisoned, inj, dropst, code, orig, rw, dirty, ctr, aborted, fault, inflight>>

Writable(f, n) == \A i \in 1..n : <<f, Page(f, i)>> \in rw

\* the entry is written only after the original was saved and the trampoline is complete
\* and flushed (a call from another thread may arrive the instant the entry changes)
WriteEntry(t) ==
  /\ InInstall(t) /\ Done(t, "read") /\ Done(t, "wtramp") /\ Done(t, "ftramp") /\ Done(t, "mprot")
  /\ ~Done(t, "wentry") /\ LinearOk(t, "wentry")
  /\ LET f == cur[t].f  n == cur[t].size IN
       IF Writable(f, n)
       THEN /\ code' = [code EXCEPT ![f] = Overlay(@, PatchCells(cur[t].tid, n))]
            /\ dirty' = dirty \cup {EntryLoc(f, i) : i \in 1..n}
            /\ fault' = fault
       ELSE /\ fault' = TRUE /\ UNCHANGED <<code, dirty>>
  /\ cur' = Mark(t, "wentry")
  /\ UNCHANGED <<lock, poisoned, th, inj, dropst, orig, tramp, rw, ctr, aborted, inflight>>

FlushEntryStep(t) ==
  /\ InInstall(t) /\ Done(t, "wentry") /\ ~Done(t, "fentry") /\ LinearOk(t, "fentry")
  /\ dirty' = IF FlushEntry THEN dirty \ {EntryLoc(cur[t].f, i) : i \in 1..cur[t].size} ELSE dirty
  /\ cur' = Mark(t, "fentry")
  /\ UNCHANGED <<lock, poisoned, th, inj, dropst, code, orig, tramp, rw, ctr, aborted, fault, inflight>>

PushGuard(t) ==
  /\ InInstall(t) /\ Done(t, "wentry") /\ ~Done(t, "push") /\ LinearOk(t, "push")
  /\ inj' = [inj EXCEPT ![t].guards =
               Append(@, [f |-> cur[t].f, saved |-> cur[t].saved, size |-> cur[t].size, tid |-> cur[t].tid])]
  /\ cur' = Mark(t, "push")
  /\ UNCHANGED <<lock, poisoned, th, dropst, code, orig, tramp, rw, dirty, ctr, aborted, fault, inflight>>

InstallEnd(t) ==
  /\ InInstall(t) /\ Done(t, "push") /\ Done(t, "fentry") /\ Done(t, "ftramp")
  /\ (cur[t].n >= 0 => Done(t, "verifier"))
  /\ th' = [th EXCEPT ![t].pc = "user"]
  /\ cur' = [cur EXCEPT ![t] = NoCtx]
  /\ UNCHANGED <<lock, poisoned, inj, dropst, code, orig, tramp, rw, dirty, ctr, aborted, fault, inflight>>

-----------------------------------------------------------------------------
(* calls.  Any thread may call any function at any time; what it gets is    *)
(* decided by the cells in memory.                                          *)
CallOutcome(f, match) ==
  LET r == Resolve(f) IN
  IF r.kind = "jump" /\ r.n >= 0
  THEN IF ~match THEN [res |-> [kind |-> "panic-args"], bump |-> 0]
       ELSE IF ctr[r.site] >= r.n THEN [res |-> [kind |-> "panic-over"], bump |-> r.site]
       ELSE [res |-> r, bump |-> r.site]
  ELSE [res |-> r, bump |-> 0]

\* a call by the lock holder at user level; a panic raised by the fake is caught by the
\* caller (CatchInUser) or unwinds the scope (CallPanics)
Call(t, f, match) ==
  /\ AtUser(t) /\ ~th[t].panicking
  /\ LET o == CallOutcome(f, match) IN
       /\ ctr' = IF o.bump # 0 THEN [ctr EXCEPT ![o.bump] = @ + 1] ELSE ctr
       /\ fault' = (fault \/ o.res.kind = "wild")
  /\ UNCHANGED <<lock, poisoned, th, inj, cur, dropst, code, orig, tramp, rw, dirty, aborted, inflight>>

CallPanics(t, f, match) ==
  /\ AtUser(t) /\ ~th[t].panicking
  /\ LET o == CallOutcome(f, match) IN
       /\ o.res.kind \in {"panic-args", "panic-over"}
       /\ ctr' = IF o.bump # 0 THEN [ctr EXCEPT ![o.bump] = @ + 1] ELSE ctr
  /\ RaisePanic(t, "drop")
  /\ dropst' = [dropst EXCEPT ![t] = [restored |-> {}, unmapped |-> {}]]
  /\ UNCHANGED <<lock, poisoned, inj, cur, code, orig, tramp, rw, dirty, fault, inflight>>

-----------------------------------------------------------------------------
(* scope exit: guards (restore, unmap, flush) -> verifiers -> lock          *)
DropBegin(t) ==
  /\ AtUser(t) /\ ~th[t].panicking
  /\ th' = [th EXCEPT ![t].pc = "drop"]
  /\ dropst' = [dropst EXCEPT ![t] = [restored |-> {}, unmapped |-> {}]]
  /\ UNCHANGED <<lock, poisoned, inj, cur, code, orig, tramp, rw, dirty, ctr, aborted, fault, inflight>>

InDrop(t) == th[t].pc = "drop"

\* UnlockFirst deviation: the lock goes before the guards
EarlyUnlock(t) ==
  /\ UnlockFirst /\ InDrop(t) /\ lock = t
  /\ lock' = Free /\ poisoned' = (poisoned \/ th[t].panicking)
  /\ UNCHANGED <<th, inj, cur, dropst, code, orig, tramp, rw, dirty, ctr, aborted, fault, inflight>>

DropReady(t) == InDrop(t) /\ (UnlockFirst => lock # t)

\* which guard may be restored next
CanRestore(t, i) ==
  /\ i \in 1..Len(Guards(t)) /\ i \notin dropst[t].restored
  /\ IF DropOrder = "reverse"
     THEN \A j \in (i + 1)..Len(Guards(t)) : j \notin dropst[t].restored => Guards(t)[j].f # Guards(t)[i].f
     ELSE \A j \in 1..(i - 1) : j \in dropst[t].restored

Restore(t, i) ==
  /\ DropReady(t) /\ CanRestore(t, i)
  /\ LET g == Guards(t)[i] IN
       IF Writable(g.f, g.size)
       THEN /\ code' = [code EXCEPT ![g.f] = Overlay(@, g.saved)]
            /\ dirty' = dirty \cup {EntryLoc(g.f, k) : k \in 1..g.size}
            /\ fault' = fault
       ELSE /\ fault' = TRUE /\ UNCHANGED <<code, dirty>>
  /\ dropst' = [dropst EXCEPT ![t].restored = @ \cup {i}]
  /\ UNCHANGED <<lock, poisoned, th, inj, cur, orig, tramp, rw, ctr, aborted, inflight>>

\* environment fault at the scope exit: restoring guard i fails (mprotect refused) -- a panic raised inside the
\* injector's destructor; the guard's trampoline is never released (orphan), the function keeps its patch
RestoreFails(t, i) ==
  /\ RestoreMayFail /\ DropReady(t) /\ CanRestore(t, i)
  /\ dropst' = [dropst EXCEPT ![t].restored = @ \cup {i}, ![t].unmapped = @ \cup {i}]
  /\ tramp' = [tramp EXCEPT ![Guards(t)[i].tid].orphan = TRUE]
  /\ IF th[t].panicking
     THEN /\ aborted' = TRUE /\ th' = [th EXCEPT ![t].pc = "dead", ![t].panics = @ + 1]
     ELSE /\ aborted' = aborted /\ th' = [th EXCEPT ![t].panicking = TRUE, ![t].panics = @ + 1, ![t].dropfail = TRUE]
  /\ UNCHANGED <<lock, poisoned, inj, cur, code, orig, rw, dirty, ctr, fault, inflight>>

FlushRestore(t, i) ==
  /\ DropReady(t) /\ i \in dropst[t].restored
  /\ \E k \in 1..Guards(t)[i].size : EntryLoc(Guards(t)[i].f, k) \in dirty
  /\ dirty' = dirty \ {EntryLoc(Guards(t)[i].f, k) : k \in 1..Guards(t)[i].size}
  /\ UNCHANGED <<lock, poisoned, th, inj, cur, dropst, code, orig, tramp, rw, ctr, aborted, fault, inflight>>

Unmap(t, i) ==
  /\ DropReady(t) /\ i \in dropst[t].restored /\ i \notin dropst[t].unmapped
  \* the user discipline that rules the drop hazard out: no call by another thread is still on its way
  \* into this trampoline when the injector goes away ("atUser" = others call only while no library
  \* operation runs, and the holder lets such calls finish before it drops)
  /\ (OthersCall = "atUser" => \A u \in Threads : inflight[u] # Guards(t)[i].tid)
  /\ LET id == Guards(t)[i].tid IN
       tramp' = IF UnmapOnDrop
                THEN [tramp EXCEPT ![id].state = "freed", ![id].frees = @ + 1]
                ELSE tramp
  /\ dropst' = [dropst EXCEPT ![t].unmapped = @ \cup {i}]
  /\ UNCHANGED <<lock, poisoned, th, inj, cur, code, orig, rw, dirty, ctr, aborted, fault, inflight>>

GuardsDone(t) ==
  /\ DropReady(t)
  /\ dropst[t].restored = 1..Len(Guards(t)) /\ dropst[t].unmapped = 1..Len(Guards(t))
  /\ (FlushEntry => \A i \in 1..Len(Guards(t)) : \A k \in 1..Guards(t)[i].size : EntryLoc(Guards(t)[i].f, k) \notin dirty)
  /\ th' = [th EXCEPT ![t].pc = "verify"]
  /\ inj' = [inj EXCEPT ![t].guards = <<>>]
  /\ UNCHANGED <<lock, poisoned, cur, dropst, code, orig, tramp, rw, dirty, ctr, aborted, fault, inflight>>

\* verifiers are checked one after the other, in the order they were stored
Verify(t) ==
  /\ th[t].pc = "verify" /\ Verifiers(t) # <<>>
  /\ LET v == Head(Verifiers(t)) IN
       IF ctr[v.site] # v.n /\ (~th[t].panicking \/ ~VerifySilent)
       THEN RaisePanic(t, "verify")
       ELSE UNCHANGED <<th, aborted>>
  /\ inj' = [inj EXCEPT ![t].verifiers = Tail(@)]
  /\ UNCHANGED <<lock, poisoned, cur, dropst, code, orig, tramp, rw, dirty, ctr, fault, inflight>>

Unlock(t) ==
  /\ th[t].pc = "verify" /\ Verifiers(t) = <<>>
  /\ IF lock = t /\ ~(LockByHand /\ th[t].dropfail)
     THEN lock' = Free /\ poisoned' = (poisoned \/ th[t].panicking)
     ELSE UNCHANGED <<lock, poisoned>>
  /\ th' = [th EXCEPT ![t].pc = "idle", ![t].kind = "none", ![t].lives = @ + 1]
  \* bookkeeping only: ids of mappings that were given back may name new mappings later
  /\ tramp' = [id \in TrampIds |-> IF tramp[id].state = "freed" /\ tramp[id].frees = 1
                                     THEN [state |-> "unmapped", content |-> [kind |-> "none"], size |-> 0,
                                           written |-> FALSE, frees |-> 0, orphan |-> FALSE, over |-> FALSE]
                                     ELSE tramp[id]]
  \* pages are treated as read-only again in the next lifetime: stricter than the kernel (they
  \* stay writable) and therefore conservative for NoFault; it keeps lifetimes independent
  /\ rw' = IF ~KeepPagesWritable /\ \A u \in Threads \ {t} : th[u].pc \in {"idle", "waiting"} THEN {} ELSE rw
  /\ UNCHANGED <<inj, cur, dropst, code, orig, dirty, ctr, aborted, fault, inflight>>

-----------------------------------------------------------------------------
(* behaviours beyond the listed properties *)

\* a builder that is dropped without a terminal call (will_execute..., will_return_...) is a no-op
Abandon(t) ==
  /\ InInstall(t) /\ cur[t].done = {} /\ cur[t].gate = "abandon"
  /\ th' = [th EXCEPT ![t].pc = "user"]
  /\ cur' = [cur EXCEPT ![t] = NoCtx]
  /\ UNCHANGED <<lock, poisoned, inj, dropst, code, orig, tramp, rw, dirty, ctr, aborted, fault, inflight>>

\* InjectorPP::new() / prevent() on a thread that already holds a guard blocks on its own lock for ever
NestedBegin(t) ==
  /\ AllowNested /\ AtUser(t) /\ lock = t
  /\ th' = [th EXCEPT ![t].pc = "selfdead"]
  /\ UNCHANGED <<lock, poisoned, inj, cur, dropst, code, orig, tramp, rw, dirty, ctr, aborted, fault, inflight>>

\* a thread that holds nothing calls a function: the branch at the entry and the trampoline are two
\* separate instructions, so the call is two steps (the documented hazard at drop lies between them)
OtherMayCall(u) ==
  /\ th[u].pc \in {"idle", "waiting"} /\ inflight[u] = 0
  /\ \/ OthersCall = "always"
     \/ OthersCall = "atUser" /\ \A t \in Threads : th[t].pc \notin {"install", "drop", "verify"}
OtherEnter(u, f) ==
  /\ OtherMayCall(u)
  /\ LET c == code[f][1] IN
       /\ c[1] = "p"          \* the entry branches to a trampoline
       /\ inflight' = [inflight EXCEPT ![u] = c[2]]
  /\ UNCHANGED <<lock, poisoned, th, inj, cur, dropst, code, orig, tramp, rw, dirty, ctr, aborted, fault>>
OtherExec(u) ==
  /\ inflight[u] # 0
  /\ fault' = (fault \/ tramp[inflight[u]].state # "live" \/ ~tramp[inflight[u]].written)
  /\ inflight' = [inflight EXCEPT ![u] = 0]
  /\ UNCHANGED <<lock, poisoned, th, inj, cur, dropst, code, orig, tramp, rw, dirty, ctr, aborted>>

-----------------------------------------------------------------------------
Alive == ~aborted /\ ~fault

Next ==
  \E t \in Threads :
       \/ \E k \in GuardKinds : Begin(t, k)
       \/ Acquire(t)
       \/ UserPanic(t)
       \/ \E f \in Funcs, kind \in {"jump", "bool"}, fk \in Fakes \cup BoolSet, st \in Sites \cup {NoSite},
            n \in NVals, g \in {"ok", "refuse", "abandon"} :
            /\ (kind = "bool") = (fk \in BoolSet)
            /\ (st = NoSite) = (n = -1)
            /\ (kind = "bool" => n = -1)
            /\ (st # NoSite => \A v \in 1..Len(Verifiers(t)) : Verifiers(t)[v].site # st)
            /\ InstallBegin(t, f, kind, fk, st, n, g)
       \/ PushVerifier(t) \/ GateRefuse(t) \/ (\E s \in PatchSizes : GatePass(t, s))
       \/ GateRefuseCaught(t) \/ AllocFailCaught(t) \/ MprotectFailCaught(t)
       \/ (\E id \in TrampIds : AllocOk(t, id)) \/ AllocFail(t)
       \/ WriteTramp(t) \/ FlushTramp(t) \/ ReadOrig(t) \/ MprotectOk(t) \/ MprotectFail(t)
       \/ WriteEntry(t) \/ FlushEntryStep(t) \/ PushGuard(t) \/ InstallEnd(t)
       \/ \E f \in Funcs, m \in MatchVals : Call(t, f, m) \/ CallPanics(t, f, m)
       \/ DropBegin(t) \/ EarlyUnlock(t)
       \/ \E i \in 1..MaxTramps : Restore(t, i) \/ FlushRestore(t, i) \/ Unmap(t, i) \/ RestoreFails(t, i)
       \/ GuardsDone(t) \/ Verify(t) \/ Unlock(t)
       \/ Abandon(t) \/ NestedBegin(t) \/ OtherExec(t)
       \/ \E f \in Funcs : OtherEnter(t, f)
       \/ \E f \in Funcs : Regenerate(f)
       \/ \E id \in TrampIds : ForeignTake(id)

Spec == Init /\ [][Next]_vars

-----------------------------------------------------------------------------
(* properties *)
HoldingSet == {t \in Threads : th[t].pc \in {"user", "install", "drop", "verify"}}

\* C02
Restored   == (lock = Free /\ HoldingSet = {}) => \A f \in Funcs : code[f] = orig[f]
LatestWins == \A t \in Threads : (AtUser(t) /\ th[t].kind = "inj" /\ lock = t)
                 => \A f \in Funcs : Resolve(f) = Effective(t, f)
NoWildAtUser == \A t \in Threads : AtUser(t) => \A f \in Funcs : Resolve(f).kind # "wild"
\* C03
OnlyNamed  == \A f \in Funcs : \A i \in 1..SlotLen : code[f][i] # orig[f][i] =>
                 /\ i <= MaxPatch
                 /\ \E t \in Threads : (\E g \in 1..Len(Guards(t)) : Guards(t)[g].f = f) \/ cur[t].f = f
\* C04
Mutex        == Cardinality(HoldingSet) <= 1
HolderIsLock == \A t \in HoldingSet : UnlockFirst \/ lock = t
PrevSeesOrig == \A t \in Threads : (AtUser(t) /\ th[t].kind = "prev") => \A f \in Funcs : Resolve(f).kind = "orig"
FreeMeansOrig == lock = Free => \A f \in Funcs : (UnlockFirst \/ Resolve(f).kind = "orig")
\* C05
NoAbort   == ~aborted
Reusable  == (lock = Free) => (SwallowPoison \/ ~poisoned)
IdleClean == \A t \in Threads : th[t].pc = "idle" => (lock # t /\ inj[t].guards = <<>>)
\* C12
NoLeak    == (lock = Free /\ HoldingSet = {}) => \A id \in TrampIds : tramp[id].state = "live" => tramp[id].orphan
FreeOnce  == \A id \in TrampIds : tramp[id].frees <= 1
\* C03 / C12: memory of the rest of the process is never mapped over (nor, as a consequence, written or unmapped)
ForeignIntact == \A id \in TrampIds : ~tramp[id].over
\* C17
FlushedAtUser == (\A t \in Threads : th[t].pc \in {"idle", "waiting", "user"})
                    => dirty \ {TrampLoc(id) : id \in {x \in TrampIds : tramp[x].orphan}} = {}
\* C01 (design level)
NoFault == ~fault

\* hazards (expected to be REACHABLE when the corresponding switch is on: see `check.py selftest`)
NoSelfDeadlock == \A t \in Threads : th[t].pc # "selfdead"
WX == (\A t \in Threads : th[t].pc \in {"idle", "waiting"}) => rw = {}

TypeOK ==
  /\ lock \in Threads \cup {Free}
  /\ \A t \in Threads : th[t].pc \in {"idle", "waiting", "user", "install", "drop", "verify", "dead", "selfdead"}
  /\ \A id \in TrampIds : tramp[id].state \in {"unmapped", "live", "freed", "foreign"}

=============================================================================
