------------------------------ MODULE Trace_Regs ------------------------------
(* Register-file probes around a redirected call (C13, and the stub half of C10).  *)
(* Values are opaque strings (64-bit); relations needing arithmetic (rsp) are      *)
(* delivered as booleans computed from the raw values.  Index i below is the       *)
(* 1-based position in the probe's register file:                                  *)
(*  1..6 rdi rsi rdx rcx r8 r9 | 7..14 xmm0-7 | 15..20 rbx rbp r12-r15 | 21 rsp     *)
(*  22,23 stack arguments | 24 rax 25 rdx 26 xmm0 (results) | 27 r10 28 r11         *)
(* A redirection may write only what the calling convention leaves free at a call  *)
(* boundary and that carries no argument: rax, r10, r11.                            *)
EXTENDS TraceBase

CONSTANTS Props
VARIABLES sc, l, s
tvars == <<sc, l, s>>
Ev == Rec[l]
Req(p, cond) == (p \in Props) => cond

TraceInit == sc \in 1..NScen /\ l = First(sc) /\ s = 0
Step(name) == l <= Last(sc) /\ Ev.ev = name /\ l' = l + 1 /\ sc' = sc

Args == (1..6) \cup (7..14) \cup {22, 23}
Saved == 15..20
MagicRax == "1111222233334444"
MagicRdx == "5555666677778888"
MagicXmm == "9999aaaabbbbcccc"

ProbeSetup == Step("ProbeSetup") /\ s' = s

RegProbe ==
  /\ Step("RegProbe")
  /\ IF Ev.form = "bool"
     THEN /\ Req("C10", Ev.al = (IF Ev.v THEN 1 ELSE 0))
          /\ Req("C10", \A i \in Saved : Ev.after[i] = Ev.in[i])
          /\ Req("C10", Ev.rsp_after_ok)
     ELSE /\ Req("C13", \A i \in Args : Ev.seen[i] = Ev.in[i])
          /\ Req("C13", \A i \in Saved : Ev.seen[i] = Ev.in[i] /\ Ev.after[i] = Ev.in[i])
          /\ Req("C13", Ev.rsp_at_fake_ok /\ Ev.rsp_after_ok)
          /\ Req("C13", Ev.after[24] = MagicRax /\ Ev.after[25] = MagicRdx /\ Ev.after[26] = MagicXmm)
  /\ s' = s

ProbeEnd == Step("ProbeEnd") /\ Req("C02", Ev.orig_back) /\ s' = s
\* agg_c: a 24-byte aggregate by value through the C ABI (on the stack); cross_abi: a replacement of the other ABI for the same
\* function is either not admitted (the gate, C09) or receives what the caller supplied
Shapes == Step("Shapes") /\ Req("C13", Ev.many_args_ok = Ev.n /\ Ev.wide_ret_ok = Ev.n /\ Ev.pair_ret_ok = Ev.n
                                        /\ Ev.agg_c_ok = Ev.n /\ Ev.cross_abi \in {"refused", "intact"}) /\ s' = s
ChildExit == Step("ChildExit") /\ Ev.signal = 0 /\ Ev.code = 0 /\ s' = s
Other == l <= Last(sc) /\ Ev.ev \in {"Mmap", "Munmap", "Mprotect", "Write", "Flush", "Note"} /\ l' = l + 1 /\ sc' = sc /\ s' = s

TraceNext == ProbeSetup \/ RegProbe \/ ProbeEnd \/ Shapes \/ ChildExit \/ Other
TraceSpec == TraceInit /\ [][TraceNext]_tvars
Track == TrackProgress(sc, l)
Post == PrintProgress
=============================================================================
