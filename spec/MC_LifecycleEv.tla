--------------------------- MODULE MC_LifecycleEv ---------------------------
(* Consistency of the two levels of the specification.  The fine-grained design   *)
(* model (Injectorpp.tla, free step order) is made to EMIT the event vocabulary   *)
(* that the harness records from the real library; the emitted streams are then   *)
(* fed to the trace specification Trace_Api exactly like recorded traces.         *)
(*  - with all deviations off every emitted stream must be ACCEPTED (the relaxed  *)
(*    trace specification admits everything the design does: no false alarm on    *)
(*    the modelled code, for every allowed order of the installation steps);       *)
(*  - with a deviation on (forward drop order, missing flush, missing unmap ...)   *)
(*    some emitted stream must be REJECTED (the trace specification is not too     *)
(*    weak to see what the design-level invariants see).                           *)
EXTENDS Injectorpp, Json

CONSTANTS MaxEvents, MaxInst

VARIABLES hist
evars == <<vars, hist>>

MCSplit == [f \in Funcs |-> IF f = "f2" THEN 2 ELSE SlotLen]
MCNVals == {-1, 1}
T == CHOOSE t \in Threads : TRUE

MName(id) == "m" \o ToString(id)
Cells(f) == [i \in 1..SlotLen |-> code[f][i]]
PagesCover(f, size) == [k \in 1..Cardinality(SpanPages(f, size)) |->
                          [name |-> f, page |-> (CHOOSE p \in {1, 2} :
                              /\ <<f, p>> \in SpanPages(f, size)
                              /\ Cardinality({q \in {1, 2} : <<f, q>> \in SpanPages(f, size) /\ q < p}) = k - 1)]]
Seq1N(n) == [i \in 1..n |-> i]
Ev(r) == hist' = Append(hist, r)
Q(A) == A /\ UNCHANGED hist
LiveNames == {id \in TrampIds : tramp[id].state = "live" /\ ~tramp[id].orphan}

Resname(r) == IF r.kind = "orig" THEN "orig" ELSE IF r.kind = "bool" THEN r.v
              ELSE IF r.kind = "jump" THEN r.fake ELSE r.kind

EvNext ==
  /\ Len(hist) < MaxEvents
  /\ \/ /\ th[T].lives < 1 /\ Begin(T, "inj") /\ UNCHANGED hist
     \/ Acquire(T) /\ Ev([ev |-> "Acquire", kind |-> "inj", lock |-> 1])
     \/ UserPanic(T) /\ hist' = hist \o <<[ev |-> "UserPanic"], [ev |-> "DropBegin", how |-> "unwind"]>>
     \/ \E f \in Funcs, kind \in {"jump", "bool"}, fk \in Fakes \cup BoolSet, st \in Sites \cup {NoSite}, n \in NVals,
           g \in {"ok", "refuse"} :
           /\ (kind = "bool") = (fk \in BoolSet) /\ (st = NoSite) = (n = -1) /\ (kind = "bool" => n = -1)
           /\ (st # NoSite => \A v \in 1..Len(Verifiers(T)) : Verifiers(T)[v].site # st)
           /\ Len(Guards(T)) < MaxInst /\ Cardinality({i \in 1..Len(hist) : hist[i].ev = "InstallBegin"}) < MaxInst
           /\ InstallBegin(T, f, kind, fk, st, n, g)
           /\ Ev([ev |-> "InstallBegin", f |-> f, kind |-> kind, fake |-> fk, site |-> st, n |-> n])
     \/ Q(PushVerifier(T)) \/ Q(\E s \in PatchSizes : GatePass(T, s)) \/ Q(ReadOrig(T)) \/ Q(PushGuard(T))
     \/ /\ GateRefuse(T)
        /\ hist' = hist \o <<[ev |-> "InstallEnd", outcome |-> "panic", cls |-> "sig-mismatch", lock |-> 1,
                               verifier_kept |-> ("verifier" \in cur[T].done)], [ev |-> "DropBegin", how |-> "unwind"]>>
     \/ \E id \in TrampIds : AllocOk(T, id) /\ Ev([ev |-> "Mmap", ok |-> TRUE, name |-> MName(id), lock |-> 1])
     \/ /\ AllocFail(T)
        /\ hist' = hist \o <<[ev |-> "InstallEnd", outcome |-> "panic", cls |-> "alloc-exhausted", lock |-> 1,
                               verifier_kept |-> ("verifier" \in cur[T].done)], [ev |-> "DropBegin", how |-> "unwind"]>>
     \/ WriteTramp(T) /\ Ev([ev |-> "Write", region |-> "tramp", name |-> MName(cur[T].tid), changed |-> <<1>>, new |-> <<1>>])
     \/ FlushTramp(T) /\ Ev([ev |-> "Flush", lock |-> 1, covers |-> <<[name |-> MName(cur[T].tid), lo |-> 1, hi |-> 1]>>])
     \/ /\ MprotectOk(T)
        /\ Ev([ev |-> "Mprotect", ret |-> 0, writable |-> TRUE, lock |-> 1, covers |-> PagesCover(cur[T].f, cur[T].size)])
     \/ /\ MprotectFail(T)
        /\ hist' = hist \o <<[ev |-> "Mprotect", ret |-> -1, writable |-> TRUE, lock |-> 1, covers |-> <<>>],
                             [ev |-> "InstallEnd", outcome |-> "panic", cls |-> "mprotect", lock |-> 1,
                              verifier_kept |-> ("verifier" \in cur[T].done)], [ev |-> "DropBegin", how |-> "unwind"]>>
     \/ /\ WriteEntry(T) /\ ~fault'
        /\ Ev([ev |-> "Write", region |-> "entry", name |-> cur[T].f, changed |-> Seq1N(cur[T].size),
               new |-> [i \in 1..SlotLen |-> code'[cur[T].f][i]]])
     \/ /\ FlushEntryStep(T)
        /\ IF FlushEntry THEN Ev([ev |-> "Flush", lock |-> 1, covers |-> <<[name |-> cur[T].f, lo |-> 1, hi |-> cur[T].size]>>])
           ELSE UNCHANGED hist
     \/ InstallEnd(T) /\ Ev([ev |-> "InstallEnd", outcome |-> "ok", cls |-> "", lock |-> 1])
     \/ \E f \in Funcs : /\ Call(T, f, TRUE) /\ ~fault'
                          /\ Ev([ev |-> "Call", f |-> f, match |-> TRUE,
                                 res |-> LET o == CallOutcome(f, TRUE) IN
                                         IF o.res.kind \in {"panic-args", "panic-over"} THEN o.res.kind ELSE Resname(o.res)])
     \/ DropBegin(T) /\ Ev([ev |-> "DropBegin", how |-> "scope"])
     \/ \E i \in 1..MaxTramps :
          \/ /\ Restore(T, i) /\ ~fault'
             /\ Ev([ev |-> "Write", region |-> "entry", name |-> Guards(T)[i].f, changed |-> Seq1N(Guards(T)[i].size),
                    new |-> [k \in 1..SlotLen |-> code'[Guards(T)[i].f][k]]])
          \/ /\ FlushRestore(T, i)
             /\ Ev([ev |-> "Flush", lock |-> 1, covers |-> <<[name |-> Guards(T)[i].f, lo |-> 1, hi |-> Guards(T)[i].size]>>])
          \/ /\ Unmap(T, i)
             /\ IF UnmapOnDrop THEN Ev([ev |-> "Munmap", name |-> MName(Guards(T)[i].tid), foreign |-> FALSE, ret |-> 0, lock |-> 1])
                ELSE UNCHANGED hist
     \/ Q(GuardsDone(T))
     \/ /\ Verify(T)
        /\ UNCHANGED hist
     \/ /\ Unlock(T)
        /\ Ev([ev |-> "DropEnd", lock |-> 0, panics |-> th[T].panics, live |-> Cardinality(LiveNames),
               outcome |-> "ok", cls |-> "", exp |-> 0, act |-> 0])

SpecEv == Init /\ hist = <<>> /\ [][EvNext]_evars

\* restore steps need the DropBegin event first (the harness logs it before the drop starts)
DropLogged == \A i \in 1..Len(hist) : TRUE
Targets == [f \in Funcs |-> [ev |-> "Target", f |-> f, orig |-> [i \in 1..SlotLen |-> orig[f][i]], split |-> Split[f], rwpages |-> <<>>]]
Finished == th[T].pc = "idle" /\ th[T].lives = 1
Emit == Finished => PrintT(<<"REPLAY", ToJson(hist)>>)
=============================================================================
