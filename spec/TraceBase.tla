------------------------------ MODULE TraceBase ------------------------------
(* Common machinery of the trace specifications (impl -> spec direction).      *)
(* The trace file is ndjson: line 1 is a header with the first/last line of    *)
(* every scenario; each scenario is validated independently (one initial state *)
(* per scenario), so a rejected scenario does not hide the others.  Progress   *)
(* (longest matched prefix per scenario) is kept in TLC registers and printed  *)
(* by the POSTCONDITION; the driver compares it with the scenario lengths.     *)
EXTENDS Naturals, Integers, Sequences, FiniteSets, TLC, Json, IOUtils

Rec == ndJsonDeserialize(IOEnv.TRACE)
Hdr == Rec[1]
NScen == Hdr.n

ASSUME \A k \in 1..NScen : TLCSet(k, 0)

First(k) == Hdr.starts[k]
Last(k)  == Hdr.ends[k]

Has(r, k) == k \in DOMAIN r

\* set of elements of a (JSON array = 1-based) sequence
Elems(s) == {s[i] : i \in 1..Len(s)}

TrackProgress(sc, l) ==
  TLCSet(sc, IF TLCGet(sc) < l - First(sc) THEN l - First(sc) ELSE TLCGet(sc))

PrintProgress ==
  \A k \in 1..NScen : PrintT(<<"PROGRESS", k, TLCGet(k), Last(k) - First(k) + 1>>)
=============================================================================
