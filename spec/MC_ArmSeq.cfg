SPECIFICATION Spec
CONSTANTS
  Scratch = 12
  ImmT = 4
  Bases <- MCBases
  Fakes32 <- MCFakes
INVARIANT Reaches OneLoad OnlyScratch Fits12
CHECK_DEADLOCK FALSE
