-------------------------------- MODULE Word --------------------------------
(* Machine words as little-endian byte sequences.  TLC integers are 32-bit, so *)
(* real addresses never appear as TLC integers: a 64-bit word is <<b1..b8>>.   *)
EXTENDS Naturals, Integers, Sequences

Byte == 0..255
IsWord(w, n) == Len(w) = n /\ \A i \in 1..n : w[i] \in Byte

Zero(n) == [i \in 1..n |-> 0]
Ones(n) == [i \in 1..n |-> 255]

RECURSIVE AddRec(_, _, _, _)
AddRec(a, b, i, c) ==
  IF i > Len(a) THEN <<>>
  ELSE LET sum == a[i] + b[i] + c IN <<sum % 256>> \o AddRec(a, b, i + 1, sum \div 256)
Add(a, b) == AddRec(a, b, 1, 0)            \* modulo 2^(8*Len(a))

Not(a) == [i \in 1..Len(a) |-> 255 - a[i]]
One(n) == [i \in 1..n |-> IF i = 1 THEN 1 ELSE 0]
Neg(a) == Add(Not(a), One(Len(a)))
Sub(a, b) == Add(a, Neg(b))

\* small naturals (< 2^24) as words
FromNat(k, n) == [i \in 1..n |-> IF i = 1 THEN k % 256 ELSE IF i = 2 THEN (k \div 256) % 256
                                 ELSE IF i = 3 THEN (k \div 65536) % 256 ELSE 0]
AddNat(a, k) == Add(a, FromNat(k, Len(a)))

\* integers |x| < 2^31 as n-byte two's complement words
FromNat31(k, n) == [i \in 1..n |-> IF i = 1 THEN k % 256 ELSE IF i = 2 THEN (k \div 256) % 256
                                   ELSE IF i = 3 THEN (k \div 65536) % 256
                                   ELSE IF i = 4 THEN (k \div 16777216) % 256 ELSE 0]
FromInt(x, n) == IF x >= 0 THEN FromNat31(x, n) ELSE Neg(FromNat31(-x, n))
AddInt(a, x) == Add(a, FromInt(x, Len(a)))

Double(w) == Add(w, w)
\* w * 4096 modulo 2^(8*Len(w)): one byte shift, then four doublings
ShiftBytes(w, k) == [i \in 1..Len(w) |-> IF i <= k THEN 0 ELSE w[i - k]]
Times4096(w) == Double(Double(Double(Double(ShiftBytes(w, 1)))))
\* clear the low 12 bits
PageAlign(w) == [i \in 1..Len(w) |-> IF i = 1 THEN 0 ELSE IF i = 2 THEN (w[2] \div 16) * 16 ELSE w[i]]
\* clear the low k bits, k <= 8
AlignLow(w, k) == [i \in 1..Len(w) |-> IF i = 1 THEN (w[1] \div (2 ^ k)) * (2 ^ k) ELSE w[i]]

\* sign-extend an m-byte word to n bytes
SignExt(w, n) == [i \in 1..n |-> IF i <= Len(w) THEN w[i] ELSE IF w[Len(w)] >= 128 THEN 255 ELSE 0]
ZeroExt(w, n) == [i \in 1..n |-> IF i <= Len(w) THEN w[i] ELSE 0]

\* does the n-byte two's complement word fit a signed m-byte field
FitsSigned(w, m) ==
  \/ (\A i \in (m + 1)..Len(w) : w[i] = 0)   /\ w[m] < 128
  \/ (\A i \in (m + 1)..Len(w) : w[i] = 255) /\ w[m] >= 128

\* unsigned comparison
RECURSIVE LtRec(_, _, _)
LtRec(a, b, i) == IF i = 0 THEN FALSE ELSE IF a[i] # b[i] THEN a[i] < b[i] ELSE LtRec(a, b, i - 1)
Lt(a, b) == LtRec(a, b, Len(a))
Le(a, b) == a = b \/ Lt(a, b)

\* value of a word known to be small (upper bytes zero): low 3 bytes as a natural
IsSmall(w) == \A i \in 4..Len(w) : w[i] = 0
Small(w) == w[1] + 256 * w[2] + 65536 * w[3]

\* |a - b| <= r  (unsigned distance)
AbsDiff(a, b) == IF Lt(a, b) THEN Sub(b, a) ELSE Sub(a, b)

Slice(s, from, n) == SubSeq(s, from, from + n - 1)
=============================================================================
