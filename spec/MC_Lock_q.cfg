SPECIFICATION SpecK
CONSTANTS
  Threads = {"t1", "t2", "t3"}
  Funcs = {"f1"}
  Fakes = {"k1", "k2", "k3"}
  FakeOf <- MCFakeOf
  Sites = {}
  SlotLen = 3
  MaxPatch = 2
  PatchSizes = {2}
  Split <- MCSplit
  MaxTramps = 2
  NVals <- MCNVals
  BoolSet = {}
  GuardKinds = {"inj", "prev"}
  MatchVals = {TRUE}
  DropOrder = "reverse"
  ResetCounterOnInstall = TRUE
  MprotectSpan = "range"
  VerifySilent = TRUE
  SwallowPoison = TRUE
  UnlockFirst = FALSE
  FlushEntry = TRUE
  UnmapOnDrop = TRUE
  Linear = TRUE
  AllowNested = FALSE
  OthersCall = "never"
  KeepPagesWritable = FALSE
  TrampFlushed = TRUE
  Regen = FALSE
  SavedFrom = "install"
  VerifierStep = "first"
  RestoreMayFail = FALSE
  LockByHand = FALSE
  CatchRefusals = FALSE
  ForeignReuse = FALSE
  AllocAt = "hint"
  MaxLives = 1
INVARIANT NoFault TypeOK Mutex HolderIsLock PrevSeesOrig OwnFakes FreeMeansOrig NoAbort Reusable Restored NoLeak NoSelfDeadlock WX
PROPERTY HandOver NoStuck
CHECK_DEADLOCK FALSE
