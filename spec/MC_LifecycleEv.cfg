SPECIFICATION SpecEv
CONSTANTS
  Threads = {"t1"}
  Funcs = {"f2"}
  Fakes = {"k1"}
  Sites = {1}
  SlotLen = 4
  MaxPatch = 3
  PatchSizes = {2, 3}
  Split <- MCSplit
  MaxTramps = 2
  NVals <- MCNVals
  BoolSet = {"true"}
  GuardKinds = {"inj"}
  MatchVals = {TRUE}
  DropOrder = "reverse"
  ResetCounterOnInstall = TRUE
  MprotectSpan = "range"
  VerifySilent = TRUE
  SwallowPoison = TRUE
  UnlockFirst = FALSE
  FlushEntry = TRUE
  UnmapOnDrop = TRUE
  Linear = FALSE
  AllowNested = FALSE
  OthersCall = "never"
  KeepPagesWritable = FALSE
  TrampFlushed = TRUE
  Regen = FALSE
  SavedFrom = "install"
  VerifierStep = "first"
  RestoreMayFail = FALSE
  LockByHand = FALSE
  CatchRefusals = FALSE
  ForeignReuse = FALSE
  AllocAt = "hint"
  MaxEvents = 40
  MaxInst = 1
INVARIANT Emit
CHECK_DEADLOCK FALSE
