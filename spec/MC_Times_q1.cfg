SPECIFICATION Spec
CONSTANTS
  Callers = {"a", "b", "c"}
  N = 1
  MaxCalls = 2
  AtomicCount = "fetchAdd"
  Compare = "ge"
INVARIANT Budget Accounting RejectsFree ExitVerdict
CHECK_DEADLOCK FALSE
