---------------------------- MODULE Apa_Counter ----------------------------
(* The call budget for ARBITRARY N and any number of calls (inductive invariant, *)
(* Apalache): one atomic fetch_add per matching call; admitted iff the previous   *)
(* value was below N.                                                             *)
EXTENDS Integers

CONSTANT
  \* @type: Int;
  N

VARIABLES
  \* @type: Int;
  ctr,
  \* @type: Int;
  returned,
  \* @type: Int;
  over,
  \* @type: Int;
  matching,
  \* @type: Int;
  rejected

ConstInit == N \in Int /\ N >= 0

Init == ctr = 0 /\ returned = 0 /\ over = 0 /\ matching = 0 /\ rejected = 0

Call ==
  /\ ctr' = ctr + 1 /\ matching' = matching + 1
  /\ IF ctr >= N THEN over' = over + 1 /\ returned' = returned
                 ELSE returned' = returned + 1 /\ over' = over
  /\ UNCHANGED rejected
Reject == rejected' = rejected + 1 /\ UNCHANGED <<ctr, returned, over, matching>>
Next == Call \/ Reject

Min(a, b) == IF a < b THEN a ELSE b
IndInv ==
  /\ ctr >= 0 /\ rejected >= 0
  /\ ctr = matching
  /\ returned = Min(matching, N)
  /\ over = matching - returned
IndInit == ctr \in Int /\ returned \in Int /\ over \in Int /\ matching \in Int /\ rejected \in Int /\ IndInv
\* the verdict at scope exit is a function of (matching, N) only
ExitVerdict == (ctr # N) <=> (matching # N)
Inv == IndInv /\ ExitVerdict /\ returned <= N
=============================================================================
