SPECIFICATION Spec
CONSTANTS
  NPages = 9
  PS = 2
  R = 4
  Branch = "a64"
  UnmapRejected = TRUE
  Kernel = "win"
  Gran = 2
  AcceptTest = "a64safe"
INVARIANT InReach NoLeftover Bounded
PROPERTY Terminates
CHECK_DEADLOCK FALSE
