---------------------------- MODULE Apa_Encoder ----------------------------
(* The x86-64 branch encoder's arithmetic over UNBOUNDED integers (Apalache):   *)
(* for every instruction address `from` in user space and every 64-bit target    *)
(* `to`, the bytes chosen by generate_branch_to_target_function -- short form     *)
(* iff the displacement from the END of the 5-byte instruction fits a signed      *)
(* 32-bit field, otherwise the absolute form -- decode to exactly `to`.           *)
(* Also the AArch64 `B` encoder: for word-aligned pc/target with |d| in range the *)
(* 26-bit field decodes back to the target, and out-of-range is refused.          *)
EXTENDS Integers

CONSTANTS
  \* @type: Int;
  EndOffset,      \* 5 in the code; a deviation (0) must be caught
  \* @type: Bool;
  StrictUpper     \* TRUE: d <= 2^31 - 1 (the code); FALSE: d <= 2^31 (deviation)

VARIABLES
  \* @type: Int;
  from,
  \* @type: Int;
  to,
  \* @type: Int;
  pc,
  \* @type: Int;
  src,
  \* @type: Int;
  tramp

P31 == 2147483648
P32 == 4294967296
P47 == 140737488355328
P63 == 9223372036854775808
P64 == 18446744073709551616
P27 == 134217728
P26 == 67108864
P25 == 33554432

ConstInit == EndOffset \in {5} /\ StrictUpper \in {TRUE}

Init ==
  /\ from \in Int /\ from >= 4096 /\ from < P47
  /\ to \in Int /\ to >= 0 /\ to < P63
  /\ src \in Int /\ src >= 4096 /\ src < P47 /\ src % 4 = 0
  /\ tramp \in Int /\ tramp >= 4096 /\ tramp < P47 /\ tramp % 4096 = 0
  /\ pc = from

Next == UNCHANGED <<from, to, pc, src, tramp>>

\* ---- x86-64
Disp == to - (from + EndOffset)
Short == Disp >= -P31 /\ (IF StrictUpper THEN Disp <= P31 - 1 ELSE Disp <= P31)
Field == Disp % P32                                  \* what `offset as i32` leaves in the 4 bytes
SExt32(x) == IF x >= P31 THEN x - P32 ELSE x
Decoded == IF Short THEN (from + 5 + SExt32(Field)) % P64 ELSE to
X64Reaches == Decoded = to

\* ---- AArch64 B (after the repair of BRANCH_RANGE): offset = (tramp - src) / 4
Off == (tramp - src) \div 4
InBRange == Off >= -P25 /\ Off <= P25 - 1
Imm26 == Off % P26
SExt26(x) == IF x >= P25 THEN x - P26 ELSE x
BDecoded == src + 4 * SExt26(Imm26)
A64Reaches == InBRange => BDecoded = tramp
\* the repaired allocator acceptance implies encodability
Accepts == IF tramp >= src THEN tramp - src < P27 ELSE src - tramp <= P27
A64AcceptedIsEncodable == Accepts => InBRange

Inv == X64Reaches /\ A64Reaches /\ A64AcceptedIsEncodable
=============================================================================
