------------------------------ MODULE MC_Times ------------------------------
(* The call budget of fake!(..., times: N) under concurrent callers (C06).      *)
(* Each caller runs a script of calls (matching / not matching the `when`       *)
(* condition).  A fake invocation is: test `when` (no shared state) -> one       *)
(* atomic fetch_add -> compare the PREVIOUS value with N -> panic or proceed.    *)
(* Deviation AtomicCount = "loadStore" splits the update into a load and a       *)
(* store (lost updates).  At quiescence the scope exit compares the counter      *)
(* with N.                                                                       *)
EXTENDS Naturals, Integers, Sequences, FiniteSets, TLC

CONSTANTS Callers, N, MaxCalls, AtomicCount, Compare

VARIABLES ctr, script, pc, loaded, returned, over, rejected, matching
tvars == <<ctr, script, pc, loaded, returned, over, rejected, matching>>

Scripts == UNION {[1..n -> BOOLEAN] : n \in 0..MaxCalls}

Init ==
  /\ ctr = 0
  /\ script \in [Callers -> Scripts]
  /\ pc = [c \in Callers |-> "idle"] /\ loaded = [c \in Callers |-> 0]
  /\ returned = 0 /\ over = 0 /\ rejected = 0 /\ matching = 0

Over(prev) == IF Compare = "ge" THEN prev >= N ELSE prev > N

Reject(c) ==
  /\ pc[c] = "idle" /\ script[c] # <<>> /\ ~Head(script[c])
  /\ rejected' = rejected + 1 /\ script' = [script EXCEPT ![c] = Tail(@)]
  /\ UNCHANGED <<ctr, pc, loaded, returned, over, matching>>

Finish(c, prev) ==
  /\ IF Over(prev) THEN over' = over + 1 /\ returned' = returned
                   ELSE returned' = returned + 1 /\ over' = over
  /\ script' = [script EXCEPT ![c] = Tail(@)]
  /\ matching' = matching + 1

FetchAdd(c) ==
  /\ AtomicCount = "fetchAdd"
  /\ pc[c] = "idle" /\ script[c] # <<>> /\ Head(script[c])
  /\ ctr' = ctr + 1 /\ Finish(c, ctr)
  /\ UNCHANGED <<pc, loaded, rejected>>

Load(c) ==
  /\ AtomicCount = "loadStore"
  /\ pc[c] = "idle" /\ script[c] # <<>> /\ Head(script[c])
  /\ loaded' = [loaded EXCEPT ![c] = ctr] /\ pc' = [pc EXCEPT ![c] = "loaded"]
  /\ UNCHANGED <<ctr, script, returned, over, rejected, matching>>

Store(c) ==
  /\ pc[c] = "loaded"
  /\ ctr' = loaded[c] + 1 /\ Finish(c, loaded[c]) /\ pc' = [pc EXCEPT ![c] = "idle"]
  /\ UNCHANGED <<loaded, rejected>>

Next == \E c \in Callers : Reject(c) \/ FetchAdd(c) \/ Load(c) \/ Store(c)
Spec == Init /\ [][Next]_tvars

Min(a, b) == IF a < b THEN a ELSE b
Quiet == \A c \in Callers : script[c] = <<>> /\ pc[c] = "idle"

\* C06
Budget        == returned <= N
Accounting    == Quiet => (returned = Min(matching, N) /\ over = matching - Min(matching, N) /\ ctr = matching)
RejectsFree   == ctr <= matching + Cardinality({c \in Callers : pc[c] = "loaded"})
ExitVerdict   == Quiet => ((ctr # N) <=> (matching # N))
=============================================================================
