---------------------------- MODULE MC_Lifecycle ----------------------------
(* Bounded instance: one thread, every install history, every allowed step   *)
(* order inside each installation, calls in between, normal exit and         *)
(* unwinding, several consecutive lifetimes.  Decides C02 C03 C07 C12 C17    *)
(* and the single-thread half of C05 at design level.                        *)
EXTENDS Injectorpp

CONSTANTS MaxLives, MaxInstalls, MaxCtr

MCSplit == [f \in Funcs |-> IF f = "f2" THEN 2 ELSE SlotLen]
MCNVals == {-1, 1}

\* bound the exploration: lifetimes, installs per lifetime, counter values
Bound ==
  /\ \A t \in Threads : th[t].lives <= MaxLives
  /\ \A t \in Threads : th[t].lives = MaxLives => th[t].pc = "idle"
  /\ \A t \in Threads : Len(inj[t].guards) <= MaxInstalls
  /\ \A s \in Sites : ctr[s] <= MaxCtr

\* quick instance of the Regenerate configuration: every function's code is replaced at most once
RegenOnce == \A f \in Funcs : orig[f][1][1] \in {"o", "r1"}

SpecL == Spec

Invs ==
  /\ TypeOK /\ Restored /\ LatestWins /\ NoWildAtUser /\ OnlyNamed /\ Mutex /\ HolderIsLock
  /\ NoAbort /\ Reusable /\ IdleClean /\ NoLeak /\ FreeOnce /\ FlushedAtUser /\ NoFault

\* C07: a verifier that was just stored refers to a counter at zero
FreshCount == [][\A t \in Threads :
                   (cur[t].f # "none" /\ "verifier" \notin cur[t].done
                    /\ cur'[t].f # "none" /\ "verifier" \in cur'[t].done) => ctr'[cur[t].site] = 0]_vars
\* C07 / C01 ("from any thread"): the counter is reset while the function does not yet lead to this installation's
\* trampoline -- a call served by the new fake can never be wiped out by, or precede, the reset
ResetBeforeLive == [][\A t \in Threads :
                   (cur[t].f # "none" /\ "verifier" \notin cur[t].done
                    /\ cur'[t].f # "none" /\ "verifier" \in cur'[t].done) => "wentry" \notin cur[t].done]_vars
\* C05/C09: a refused installation modifies nothing
RefusedUntouched == [][\A t \in Threads :
                   (cur[t].f # "none" /\ cur[t].gate # "ok") =>
                       (code' = code /\ (tramp' = tramp \/ \E id \in TrampIds : tramp'[id].state = "foreign" /\ tramp[id].state # "foreign"))]_vars
=============================================================================
