//! Placement driver (C01 / C10 stub / C13 bytes): real installations at chosen addresses.
//! The target is a machine-code stub in a synthetic arena; the trampoline position is
//! dictated through the interposed mmap policy; the fake is an arena stub at an exact
//! displacement from the trampoline, or a Rust function / closure / fake! in the harness
//! text with the arena positioned around it.
use crate::arena::{call_stub, Arena};
use crate::events::{a8, emit, SCENARIO};
use crate::interpose::{self, in_lib, Policy};
use crate::{child, panics, watch};
use injectorpp::interface::injector::*;
use serde_json::{json, Value};
use std::collections::BTreeSet;
use std::panic::{catch_unwind, AssertUnwindSafe};
use std::sync::atomic::Ordering::SeqCst;

const ORIG_ID: u32 = 1000;
const FAKE_ID: u32 = 3000;

#[inline(never)]
pub fn rf_func() -> u32 {
    std::hint::black_box(4003)
}

fn u(v: &Value, k: &str) -> u64 {
    v.get(k).and_then(|x| x.as_u64()).unwrap_or(0)
}
fn i(v: &Value, k: &str) -> i64 {
    v.get(k).and_then(|x| x.as_i64()).unwrap_or(0)
}
fn s(v: &Value, k: &str) -> String {
    v.get(k).and_then(|x| x.as_str()).unwrap_or("").to_string()
}

fn page(a: u64) -> u64 {
    a & !0xfff
}

/// map enough pages to hold `len` bytes at `addr` (and 16 bytes of neighbourhood each side)
fn arena_for(addr: u64, len: u64) -> Option<Arena> {
    let lo = page(addr.saturating_sub(16).max(page(addr)));
    let hi = page(addr + len + 16 - 1);
    Arena::map(lo, ((hi - lo) / 4096 + 1) as usize)
}

fn run_one(sc: &Value) {
    panics::install_hook();
    let flavour = s(sc, "flavour");
    let want_disp = i(sc, "disp");
    let tramp_delta = i(sc, "tramp_delta_pages");
    let dictate = sc.get("dictate").and_then(|x| x.as_bool()).unwrap_or(true);
    let off = u(sc, "off");
    let rust_fake: Option<(u64, u32, FuncPtr, Option<CallCountVerifier>)> = match flavour.as_str() {
        "closure" => {
            let p = injectorpp::closure!(|| -> u32 { 4001 }, fn() -> u32);
            Some((0, 4001, p, None))
        }
        "fake" => {
            let (p, v) = injectorpp::fake!(func_type: fn() -> u32, returns: 4002);
            Some((0, 4002, p, Some(v)))
        }
        "func" => Some((rf_func as usize as u64, 4003, injectorpp::func!(rf_func, fn() -> u32), None)),
        _ => None,
    };
    // addresses
    let (func_addr, tramp_page, fake_addr, want_id);
    if let Some((_, id, _, _)) = &rust_fake {
        // FuncPtr hides its pointer; recover the address of closure / fake! bodies by asking
        // for them again is impossible, so position relative to a function of the same image:
        // all harness text lies within a few MiB, the displacement lattice is in pages.
        let anchor = rf_func as usize as u64;
        let t = page(anchor.wrapping_sub(5).wrapping_sub(want_disp as u64));
        tramp_page = t;
        func_addr = (t as i64 - tramp_delta * 4096) as u64 + off;
        fake_addr = 0;
        want_id = *id;
    } else {
        func_addr = u(sc, "func_page") + off;
        tramp_page = (page(func_addr) as i64 + tramp_delta * 4096) as u64;
        fake_addr = if sc.get("fake_abs").is_some() { u(sc, "fake_abs") } else { (tramp_page + 5).wrapping_add(want_disp as u64) };
        want_id = if flavour == "bool" { u(sc, "boolv") as u32 } else { FAKE_ID };
    }
    emit(json!({"ev":"Place","func":a8(func_addr),"tramp_page":a8(tramp_page),"fake":a8(fake_addr),"flavour":flavour,
        "disp":want_disp,"off":off,"tramp_delta_pages":tramp_delta,"dictate":dictate}));
    if dictate && sc.get("free_deltas").is_none() && (tramp_page < 4096 || tramp_page >= (1u64 << 47) - 8192) {
        emit(json!({"ev":"Note","what":"skipped","why":"dictated trampoline page outside user space"}));
        return;
    }
    if func_addr < 4096 || func_addr >= (1u64 << 47) - 8192 {
        emit(json!({"ev":"Note","what":"skipped","why":"function address outside user space"}));
        return;
    }
    // target arena: stub at func_addr, neighbours 16 bytes before and after
    let fa = match arena_for(func_addr, 6) {
        Some(a) => a,
        None => {
            emit(json!({"ev":"Note","what":"skipped","why":"target pages occupied"}));
            return;
        }
    };
    let foff = (func_addr - fa.base) as usize;
    // unusual but legitimate first instructions of a target (the property speaks about "the function",
    // whatever its prologue looks like): CET landing pad, forwarding thunks, padding
    let prologue = s(sc, "prologue");
    let mut body_addr = 0u64;
    match prologue.as_str() {
        "endbr64" => {
            let mut code = vec![0xF3, 0x0F, 0x1E, 0xFA, 0xB8];
            code.extend_from_slice(&ORIG_ID.to_le_bytes());
            code.push(0xC3);
            fa.put_bytes(foff, &code);
        }
        "nop" => {
            let mut code = vec![0x90, 0x90, 0x90, 0xB8];
            code.extend_from_slice(&ORIG_ID.to_le_bytes());
            code.push(0xC3);
            fa.put_bytes(foff, &code);
        }
        "thunk_e9" | "thunk_eb" => {
            // the named function only forwards to a body 48 bytes further on (never named itself)
            if foff + 48 + 6 <= fa.len {
                body_addr = func_addr + 48;
                if prologue == "thunk_e9" {
                    let rel: i32 = 48 - 5;
                    let mut code = vec![0xE9];
                    code.extend_from_slice(&rel.to_le_bytes());
                    fa.put_bytes(foff, &code);
                } else {
                    fa.put_bytes(foff, &[0xEB, 46, 0x90, 0x90, 0x90, 0x90, 0x90]);
                }
                fa.put_stub(foff + 48, ORIG_ID);
            } else {
                fa.put_stub(foff, ORIG_ID);
            }
        }
        _ => {
            fa.put_stub(foff, ORIG_ID);
        }
    }
    let has_prev = foff >= 16;
    if has_prev {
        fa.put_stub(foff - 16, ORIG_ID + 1);
    }
    let has_next = foff + 16 + 6 <= fa.len && !prologue.starts_with("thunk");
    if has_next {
        fa.put_stub(foff + 16, ORIG_ID + 2);
    }
    fa.seal();
    // fake arena
    let mut fake_arena = None;
    if rust_fake.is_none() && flavour != "bool" {
        if fake_addr < 4096 || fake_addr >= (1u64 << 47) - 8192 {
            emit(json!({"ev":"Note","what":"skipped","why":"fake address outside user space"}));
            return;
        }
        // the fake may share pages with the target arena
        let inside = fake_addr >= fa.base && fake_addr + 6 <= fa.base + fa.len as u64;
        if inside {
            emit(json!({"ev":"Note","what":"skipped","why":"fake overlaps target arena"}));
            return;
        }
        match arena_for(fake_addr, 6) {
            Some(a) => {
                a.put_stub((fake_addr - a.base) as usize, FAKE_ID);
                a.seal();
                fake_arena = Some(a);
            }
            None => {
                emit(json!({"ev":"Note","what":"skipped","why":"fake pages occupied"}));
                return;
            }
        }
    }
    watch::clear();
    watch::add_entry("f1", func_addr, 32.min((fa.base + fa.len as u64 - func_addr) as usize));
    if body_addr != 0 {
        watch::add_arena("body", body_addr, 16);
    }
    if has_prev {
        watch::add_arena("prev", func_addr - 16, 16);
    }
    let origb = unsafe { std::slice::from_raw_parts(func_addr as *const u8, 16) }.to_vec();
    let split = 4096 - (func_addr & 0xfff) as usize;
    emit(json!({"ev":"Target","f":"f1","orig":origb,"split":split,"rwpages":watch::writable_pages(func_addr),"addr":a8(func_addr)}));
    if dictate {
        let mut free = BTreeSet::new();
        if let Some(fd) = sc.get("free_deltas").and_then(|x| x.as_array()) {
            for d in fd {
                let pg = page(func_addr) as i64 + d.as_i64().unwrap_or(0) * 4096;
                if pg >= 4096 {
                    free.insert(pg as u64);
                }
            }
        } else {
            free.insert(tramp_page);
        }
        interpose::QUIET_FAILS.store(true, SeqCst);
        interpose::set_policy(Some(Policy {
            free: Some(free),
            occupied: u(sc, "occupied") as u8,
            elsewhere: (page(func_addr) as i64 + i(sc, "elsewhere_delta") * 4096) as u64,
            occ_budget: u(sc, "occ_budget") as usize,
            ..Default::default()
        }));
    }
    let mut inj = in_lib(InjectorPP::new);
    let mut rust_fake = rust_fake;
    let r = catch_unwind(AssertUnwindSafe(|| {
        in_lib(|| unsafe {
            match flavour.as_str() {
                "raw" => inj
                    .when_called(FuncPtr::new(func_addr as *const (), "extern \"C\" fn() -> u32"))
                    .will_execute_raw(FuncPtr::new(fake_addr as *const (), "extern \"C\" fn() -> u32")),
                "unchecked" => inj
                    .when_called_unchecked(FuncPtr::new(func_addr as *const (), ""))
                    .will_execute_raw_unchecked(FuncPtr::new(fake_addr as *const (), "")),
                "bool" => inj
                    .when_called(FuncPtr::new(func_addr as *const (), "extern \"C\" fn() -> bool"))
                    .will_return_boolean(want_id != 0),
                "closure" | "func" => {
                    let (_, _, p, _) = rust_fake.take().unwrap();
                    inj.when_called(FuncPtr::new(func_addr as *const (), "fn() -> u32")).will_execute_raw(p)
                }
                "fake" => {
                    let (_, _, p, v) = rust_fake.take().unwrap();
                    inj.when_called(FuncPtr::new(func_addr as *const (), "fn() -> u32")).will_execute((p, v.unwrap()))
                }
                x => panic!("harness: flavour {x}"),
            }
        })
    }));
    interpose::set_policy(None);
    interpose::QUIET_FAILS.store(false, SeqCst);
    watch::diff_all("install-end");
    let entry = unsafe { std::slice::from_raw_parts(func_addr as *const u8, 16) }.to_vec();
    let tramp = interpose::OWNED.lock().unwrap().last().map(|x| x.0).unwrap_or(0);
    let trampb = if tramp != 0 { unsafe { std::slice::from_raw_parts(tramp as *const u8, 16) }.to_vec() } else { vec![0u8; 16] };
    // where does the trampoline's own jump go (for the Rust-fake flavours the fake address is
    // read back from the trampoline only to be REPORTED; the check compares with the CPU)
    let (outcome, cls, msg) = match &r {
        Ok(()) => ("ok", "", String::new()),
        Err(p) => {
            let m = panics::payload_str(&**p);
            ("panic", panics::classify(&m).0, m)
        }
    };
    let kind = if flavour == "bool" { "bool" } else { "jump" };
    emit(json!({"ev":"Installed","outcome":outcome,"cls":cls,"msg":msg,"kind":kind,"v":if flavour=="bool"{want_id}else{0},
        "func":a8(func_addr),"tramp":a8(tramp),"tramp_name":format!("m{:x}", tramp),"fake":a8(fake_addr),"fake_known":fake_addr!=0,
        "entry":entry,"trampb":trampb,"origb":origb,"want":want_id,"orig_id":ORIG_ID,
        "quiet_mmap":interpose::QUIET_COUNT.swap(0, SeqCst),"live":interpose::owned_live()}));
    let res = call_stub(func_addr);
    emit(json!({"ev":"Called","phase":"installed","res":res}));
    if has_prev {
        emit(json!({"ev":"Neighbour","which":"prev","res":call_stub(func_addr - 16),"want":ORIG_ID + 1}));
    }
    if has_next && body_addr == 0 {
        emit(json!({"ev":"Neighbour","which":"next","res":call_stub(func_addr + 16),"want":ORIG_ID + 2}));
    }
    if body_addr != 0 {
        // the function the thunk forwards to was never named: its own bytes are untouched (watched region
        // "body"); calling it directly while only the THUNK is faked must still run the body
        let b = unsafe { std::slice::from_raw_parts(body_addr as *const u8, 6) }.to_vec();
        emit(json!({"ev":"Neighbour","which":"thunk-body-bytes","res": if b[0] == 0xB8 { ORIG_ID } else { 0 },"want":ORIG_ID}));
    }
    in_lib(|| drop(inj));
    watch::diff_all("drop-end");
    let entry2 = unsafe { std::slice::from_raw_parts(func_addr as *const u8, 16) }.to_vec();
    emit(json!({"ev":"Dropped","entry":entry2,"live":interpose::owned_live()}));
    emit(json!({"ev":"Called","phase":"dropped","res":call_stub(func_addr)}));
    drop(fake_arena);
}

pub fn run(script: &str, out: &str) {
    crate::events::open(out);
    let text = std::fs::read_to_string(script).expect("script");
    for line in text.lines() {
        if line.trim().is_empty() {
            continue;
        }
        let sc: Value = serde_json::from_str(line).expect("scenario json");
        SCENARIO.store(i(&sc, "id") as u64, SeqCst);
        child::run_logged(30, || run_one(&sc));
    }
}
