//! Placement driver (C01 / C10 stub / C13 bytes): real installations at chosen addresses.
//! The target is a machine-code stub in a synthetic arena; the trampoline position is
//! dictated through the interposed mmap policy; the fake is an arena stub at an exact
//! displacement from the trampoline, or a Rust function / closure / fake! in the harness
//! text with the arena positioned around it.
use crate::arena::{call_stub, Arena};
use crate::events::{a8, emit, SCENARIO};
use crate::interpose::{self, in_lib, Policy};
use crate::{child, panics, watch};
use injectorpp::interface::injector::*;
use serde_json::{json, Value};
use std::collections::BTreeSet;
use std::panic::{catch_unwind, AssertUnwindSafe};
use std::sync::atomic::Ordering::SeqCst;

const ORIG_ID: u32 = 1000;
const FAKE_ID: u32 = 3000;

#[inline(never)]
pub fn rf_func() -> u32 {
    std::hint::black_box(4003)
}
#[inline(never)]
pub fn rf_bool() -> bool {
    std::hint::black_box(false)
}

fn u(v: &Value, k: &str) -> u64 {
    v.get(k).and_then(|x| x.as_u64()).unwrap_or(0)
}
fn i(v: &Value, k: &str) -> i64 {
    v.get(k).and_then(|x| x.as_i64()).unwrap_or(0)
}
fn s(v: &Value, k: &str) -> String {
    v.get(k).and_then(|x| x.as_str()).unwrap_or("").to_string()
}

fn page(a: u64) -> u64 {
    a & !0xfff
}

/// map enough pages to hold `len` bytes at `addr` (and 16 bytes of neighbourhood each side)
fn arena_for(addr: u64, len: u64) -> Option<Arena> {
    let lo = page(addr.saturating_sub(16).max(page(addr)));
    let hi = page(addr + len + 16 - 1);
    Arena::map(lo, ((hi - lo) / 4096 + 1) as usize)
}

/// code a forced-boolean trampoline forwards to (a library that keeps its boolean stubs as ordinary functions of its own
/// instead of generating them): up to three hops of `jmp rel32` / `mov rax, imm64; jmp rax` / `jmp [rip+0]`, each
/// destination's first 24 bytes if it lies in executable, readable memory outside the given trampoline
fn follow(tramp: u64, trampb: &[u8]) -> Vec<Value> {
    let maps = watch::proc_maps();
    let mut out = Vec::new();
    let (mut at, mut code) = (tramp, trampb.to_vec());
    for _ in 0..3 {
        let dest = if code.len() >= 5 && code[0] == 0xE9 {
            (at + 5).wrapping_add(i32::from_le_bytes([code[1], code[2], code[3], code[4]]) as i64 as u64)
        } else if code.len() >= 12 && code[0] == 0x48 && code[1] == 0xB8 && code[10] == 0xFF && code[11] == 0xE0 {
            u64::from_le_bytes(code[2..10].try_into().unwrap())
        } else if code.len() >= 14 && code[0] == 0xFF && code[1] == 0x25 && code[2..6] == [0, 0, 0, 0] {
            u64::from_le_bytes(code[6..14].try_into().unwrap())
        } else {
            break;
        };
        let ok = maps.iter().any(|m| m.lo <= dest && dest + 24 <= m.hi && m.perms.starts_with('r') && m.perms.as_bytes().get(2) == Some(&b'x'));
        if !ok {
            break;
        }
        code = unsafe { std::slice::from_raw_parts(dest as *const u8, 24) }.to_vec();
        out.push(json!({"base": a8(dest), "bytes": code}));
        at = dest;
    }
    out
}

/// the 16-byte entry slot as far as it is readable (bytes behind the end of the mapping read as 0xCC)
fn slot16(addr: u64, avail: usize) -> Vec<u8> {
    let n = avail.min(16);
    let mut v = unsafe { std::slice::from_raw_parts(addr as *const u8, n) }.to_vec();
    v.resize(16, 0xCC);
    v
}

fn run_one(sc: &Value) {
    panics::install_hook();
    let flavour = s(sc, "flavour");
    let want_disp = i(sc, "disp");
    let tramp_delta = i(sc, "tramp_delta_pages");
    let dictate = sc.get("dictate").and_then(|x| x.as_bool()).unwrap_or(true);
    let off = u(sc, "off");
    let rust_fake: Option<(u64, u32, FuncPtr, Option<CallCountVerifier>)> = match flavour.as_str() {
        "closure" => {
            let p = injectorpp::closure!(|| -> u32 { 4001 }, fn() -> u32);
            Some((0, 4001, p, None))
        }
        "fake" => {
            let (p, v) = injectorpp::fake!(func_type: fn() -> u32, returns: 4002);
            Some((0, 4002, p, Some(v)))
        }
        "func" => Some((rf_func as usize as u64, 4003, injectorpp::func!(rf_func, fn() -> u32), None)),
        _ => None,
    };
    // addresses
    let (func_addr, tramp_page, fake_addr, want_id);
    if let Some((_, id, _, _)) = &rust_fake {
        // FuncPtr hides its pointer; recover the address of closure / fake! bodies by asking
        // for them again is impossible, so position relative to a function of the same image:
        // all harness text lies within a few MiB, the displacement lattice is in pages.
        let anchor = rf_func as usize as u64;
        let t = page(anchor.wrapping_sub(5).wrapping_sub(want_disp as u64));
        tramp_page = t;
        func_addr = (t as i64 - tramp_delta * 4096) as u64 + off;
        fake_addr = 0;
        want_id = *id;
    } else {
        func_addr = u(sc, "func_page") + off;
        tramp_page = (page(func_addr) as i64 + tramp_delta * 4096) as u64;
        fake_addr = if sc.get("fake_abs").is_some() { u(sc, "fake_abs") } else { (tramp_page + 5).wrapping_add(want_disp as u64) };
        want_id = if flavour == "bool" { u(sc, "boolv") as u32 } else { FAKE_ID };
    }
    emit(json!({"ev":"Place","func":a8(func_addr),"tramp_page":a8(tramp_page),"fake":a8(fake_addr),"flavour":flavour,
        "disp":want_disp,"off":off,"tramp_delta_pages":tramp_delta,"dictate":dictate}));
    if dictate && sc.get("free_deltas").is_none() && (tramp_page < 4096 || tramp_page >= (1u64 << 47) - 8192) {
        emit(json!({"ev":"Note","what":"skipped","why":"dictated trampoline page outside user space"}));
        return;
    }
    if func_addr < 4096 || func_addr >= (1u64 << 47) - 8192 {
        emit(json!({"ev":"Note","what":"skipped","why":"function address outside user space"}));
        return;
    }
    // target arena: stub at func_addr, neighbours 16 bytes before and after
    let fa = match arena_for(func_addr, 6) {
        Some(a) => a,
        None => {
            emit(json!({"ev":"Note","what":"skipped","why":"target pages occupied"}));
            return;
        }
    };
    let foff = (func_addr - fa.base) as usize;
    // unusual but legitimate first instructions of a target (the property speaks about "the function",
    // whatever its prologue looks like): CET landing pad, forwarding thunks, padding
    let prologue = s(sc, "prologue");
    let mut body_addr = 0u64;
    match prologue.as_str() {
        "endbr64" => {
            let mut code = vec![0xF3, 0x0F, 0x1E, 0xFA, 0xB8];
            code.extend_from_slice(&ORIG_ID.to_le_bytes());
            code.push(0xC3);
            fa.put_bytes(foff, &code);
        }
        "selfmod" => {
            // a generated function that keeps writable state on its own (rwx) page: `inc dword [rip+26]` bumps a counter
            // 32 bytes behind the entry, then it returns its id
            let mut code = vec![0xFF, 0x05];
            code.extend_from_slice(&26i32.to_le_bytes());
            code.push(0xB8);
            code.extend_from_slice(&ORIG_ID.to_le_bytes());
            code.push(0xC3);
            if foff + 36 <= fa.len {
                fa.put_bytes(foff, &code);
                fa.put_bytes(foff + 32, &[0, 0, 0, 0]);
            } else {
                fa.put_stub(foff, ORIG_ID);
            }
        }
        "nop" => {
            let mut code = vec![0x90, 0x90, 0x90, 0xB8];
            code.extend_from_slice(&ORIG_ID.to_le_bytes());
            code.push(0xC3);
            fa.put_bytes(foff, &code);
        }
        "thunk_e9" | "thunk_eb" => {
            // the named function only forwards to a body 48 bytes further on (never named itself)
            if foff + 48 + 6 <= fa.len {
                body_addr = func_addr + 48;
                if prologue == "thunk_e9" {
                    let rel: i32 = 48 - 5;
                    let mut code = vec![0xE9];
                    code.extend_from_slice(&rel.to_le_bytes());
                    fa.put_bytes(foff, &code);
                } else {
                    fa.put_bytes(foff, &[0xEB, 46, 0x90, 0x90, 0x90, 0x90, 0x90]);
                }
                fa.put_stub(foff + 48, ORIG_ID);
            } else {
                fa.put_stub(foff, ORIG_ID);
            }
        }
        _ => {
            fa.put_stub(foff, ORIG_ID);
        }
    }
    let has_prev = foff >= 16;
    if has_prev {
        fa.put_stub(foff - 16, ORIG_ID + 1);
    }
    // "packed": the next function starts right behind the target's last byte (hand-written assembly, JIT output),
    // not at the next 16-byte boundary
    let packed = sc.get("packed").and_then(|x| x.as_bool()).unwrap_or(false) && (prologue.is_empty() || prologue == "plain");
    let next_off: usize = if packed { 6 } else { 16 };
    // "last": the target's 6 bytes are the last readable bytes of their mapping (generated code in front of a guard page)
    let last = sc.get("last").and_then(|x| x.as_bool()).unwrap_or(false) && (foff + 6) % 4096 == 0 && foff + 6 < fa.len;
    let has_next = foff + next_off + 6 <= fa.len && !prologue.starts_with("thunk") && !last;
    if has_next {
        fa.put_stub(foff + next_off, ORIG_ID + 2);
    }
    if prologue == "selfmod" {
        fa.seal_pages(0, fa.len / 4096, libc::PROT_READ | libc::PROT_WRITE | libc::PROT_EXEC);
    } else {
        fa.seal();
    }
    if last {
        fa.seal_pages((foff + 6) / 4096, fa.len / 4096 - (foff + 6) / 4096, libc::PROT_NONE);
    }
    // fake arena
    let mut fake_arena = None;
    if rust_fake.is_none() && flavour != "bool" {
        if fake_addr < 4096 || fake_addr >= (1u64 << 47) - 8192 {
            emit(json!({"ev":"Note","what":"skipped","why":"fake address outside user space"}));
            return;
        }
        // the fake may share pages with the target arena
        let inside = fake_addr >= fa.base && fake_addr + 6 <= fa.base + fa.len as u64;
        if inside {
            emit(json!({"ev":"Note","what":"skipped","why":"fake overlaps target arena"}));
            return;
        }
        match arena_for(fake_addr, 6) {
            Some(a) => {
                a.put_stub((fake_addr - a.base) as usize, FAKE_ID);
                a.seal();
                fake_arena = Some(a);
            }
            None => {
                emit(json!({"ev":"Note","what":"skipped","why":"fake pages occupied"}));
                return;
            }
        }
    }
    watch::clear();
    watch::add_entry("f1", func_addr, if last { 6 } else { 32.min((fa.base + fa.len as u64 - func_addr) as usize) });
    if body_addr != 0 {
        watch::add_arena("body", body_addr, 16);
    }
    if has_prev {
        watch::add_arena("prev", func_addr - 16, 16);
    }
    let avail = if last { 6 } else { 16 };
    let origb = slot16(func_addr, avail);
    let split = 4096 - (func_addr & 0xfff) as usize;
    emit(json!({"ev":"Target","f":"f1","orig":origb,"split":split,"rwpages":watch::writable_pages(func_addr),"addr":a8(func_addr)}));
    if dictate {
        let mut free = BTreeSet::new();
        if let Some(fd) = sc.get("free_deltas").and_then(|x| x.as_array()) {
            for d in fd {
                let pg = page(func_addr) as i64 + d.as_i64().unwrap_or(0) * 4096;
                if pg >= 4096 {
                    free.insert(pg as u64);
                }
            }
        } else {
            free.insert(tramp_page);
        }
        interpose::QUIET_FAILS.store(true, SeqCst);
        // a placement that is only dictated (no occupancy pattern of its own): hints that are not free are answered with the
        // dictated page, as a kernel may answer any hint -- the placement is reached whatever pages the allocator asks for
        let pure = sc.get("free_deltas").is_none() && sc.get("occupied").is_none();
        interpose::set_policy(Some(Policy {
            free: Some(free),
            occupied: if pure { 4 } else { u(sc, "occupied") as u8 },
            elsewhere: (page(func_addr) as i64 + i(sc, "elsewhere_delta") * 4096) as u64,
            occ_budget: u(sc, "occ_budget") as usize,
            ..Default::default()
        }));
    }
    // one page of the target refuses to become writable, for good (its first page, or only the second one of an entry that
    // straddles a boundary): the installation must fail loudly and leave every byte as it was
    match s(sc, "deny").as_str() {
        "first" => interpose::DENY_PAGE.store(page(func_addr), SeqCst),
        "second" => interpose::DENY_PAGE.store(page(func_addr) + 4096, SeqCst),
        _ => {}
    }
    if sc.get("prime_bool").and_then(|x| x.as_bool()).unwrap_or(false) {
        // earlier in the same process, an ordinary function of the program was forced to the same value, in an injector
        // lifetime of its own (not recorded: what follows must not depend on it)
        let mut i0 = InjectorPP::new();
        i0.when_called(injectorpp::func!(rf_bool, fn() -> bool)).will_return_boolean(want_id != 0);
        let _ = std::hint::black_box(rf_bool as fn() -> bool)();
        drop(i0);
    }
    let mut inj = in_lib(InjectorPP::new);
    let mut rust_fake = rust_fake;
    let r = catch_unwind(AssertUnwindSafe(|| {
        in_lib(|| unsafe {
            match flavour.as_str() {
                "raw" => inj
                    .when_called(FuncPtr::new(func_addr as *const (), "extern \"C\" fn() -> u32"))
                    .will_execute_raw(FuncPtr::new(fake_addr as *const (), "extern \"C\" fn() -> u32")),
                "unchecked" => inj
                    .when_called_unchecked(FuncPtr::new(func_addr as *const (), ""))
                    .will_execute_raw_unchecked(FuncPtr::new(fake_addr as *const (), "")),
                "bool" => inj
                    .when_called(FuncPtr::new(func_addr as *const (), "extern \"C\" fn() -> bool"))
                    .will_return_boolean(want_id != 0),
                "closure" | "func" => {
                    let (_, _, p, _) = rust_fake.take().unwrap();
                    inj.when_called(FuncPtr::new(func_addr as *const (), "fn() -> u32")).will_execute_raw(p)
                }
                "fake" => {
                    let (_, _, p, v) = rust_fake.take().unwrap();
                    inj.when_called(FuncPtr::new(func_addr as *const (), "fn() -> u32")).will_execute((p, v.unwrap()))
                }
                x => panic!("harness: flavour {x}"),
            }
        })
    }));
    interpose::set_policy(None);
    interpose::QUIET_FAILS.store(false, SeqCst);
    interpose::DENY_PAGE.store(0, SeqCst);
    watch::diff_all("install-end");
    let entry = slot16(func_addr, avail);
    let tramp = interpose::OWNED.lock().unwrap().last().map(|x| x.0).unwrap_or(0);
    let trampb = if tramp != 0 { unsafe { std::slice::from_raw_parts(tramp as *const u8, 16) }.to_vec() } else { vec![0u8; 16] };
    // where does the trampoline's own jump go (for the Rust-fake flavours the fake address is
    // read back from the trampoline only to be REPORTED; the check compares with the CPU)
    let (outcome, cls, msg) = match &r {
        Ok(()) => ("ok", "", String::new()),
        Err(p) => {
            let m = panics::payload_str(&**p);
            ("panic", panics::classify(&m).0, m)
        }
    };
    let kind = if flavour == "bool" { "bool" } else { "jump" };
    emit(json!({"ev":"Installed","outcome":outcome,"cls":cls,"msg":msg,"kind":kind,"v":if flavour=="bool"{want_id}else{0},
        "func":a8(func_addr),"tramp":a8(tramp),"tramp_name":format!("m{:x}", tramp),"fake":a8(fake_addr),"fake_known":fake_addr!=0,
        "entry":entry,"trampb":trampb,"origb":origb,"want":want_id,"orig_id":ORIG_ID,
        "extra": if flavour == "bool" && tramp != 0 { follow(tramp, &trampb) } else { Vec::new() },
        "quiet_mmap":interpose::QUIET_COUNT.swap(0, SeqCst),"live":interpose::owned_live()}));
    // a forced boolean is what `al` holds: the rest of eax is not part of the value
    let res = if flavour == "bool" && outcome == "ok" { call_stub(func_addr) & 0xff } else { call_stub(func_addr) };
    emit(json!({"ev":"Called","phase":"installed","res":res}));
    if has_prev {
        emit(json!({"ev":"Neighbour","which":"prev","res":call_stub(func_addr - 16),"want":ORIG_ID + 1}));
    }
    if has_next && body_addr == 0 {
        emit(json!({"ev":"Neighbour","which":"next","res":call_stub(func_addr + next_off as u64),"want":ORIG_ID + 2,"packed":packed}));
    }
    if body_addr != 0 {
        // the function the thunk forwards to was never named: its own bytes are untouched (watched region
        // "body"); calling it directly while only the THUNK is faked must still run the body
        let b = unsafe { std::slice::from_raw_parts(body_addr as *const u8, 6) }.to_vec();
        emit(json!({"ev":"Neighbour","which":"thunk-body-bytes","res": if b[0] == 0xB8 { ORIG_ID } else { 0 },"want":ORIG_ID}));
    }
    in_lib(|| drop(inj));
    watch::diff_all("drop-end");
    let entry2 = slot16(func_addr, avail);
    emit(json!({"ev":"Dropped","entry":entry2,"live":interpose::owned_live()}));
    emit(json!({"ev":"Called","phase":"dropped","res":call_stub(func_addr)}));
    if prologue == "selfmod" && foff + 36 <= fa.len {
        // the restored function runs as before: it can still update the state it keeps next to its code
        let c0 = unsafe { std::ptr::read_unaligned((func_addr + 32) as *const u32) };
        let r = call_stub(func_addr);
        let c1 = unsafe { std::ptr::read_unaligned((func_addr + 32) as *const u32) };
        emit(json!({"ev":"Neighbour","which":"own-state-after-drop","res": if r == ORIG_ID && c1 == c0 + 1 { ORIG_ID } else { 0 },"want":ORIG_ID}));
    }
    if has_next && body_addr == 0 {
        emit(json!({"ev":"Neighbour","which":"next-after-drop","res":call_stub(func_addr + next_off as u64),"want":ORIG_ID + 2,"packed":packed}));
    }
    drop(fake_arena);
}


/// several targets through one injector, several injector lifetimes in one process, trampolines placed by the
/// kernel (no dictated page): what an installation does must not depend on, or disturb, the others.
/// scenario: {"mode":"multi","lives":[{"base":B,"pages":n,"offs":[..]}, ..]}
fn run_multi(sc: &Value) {
    panics::install_hook();
    let lives = sc.get("lives").and_then(|x| x.as_array()).cloned().unwrap_or_default();
    emit(json!({"ev":"Place","mode":"multi","lives":lives.len()}));
    let mut foreign: Vec<(u64, Vec<u8>)> = Vec::new();
    for (li, life) in lives.iter().enumerate() {
        let base = u(life, "base");
        let pages = u(life, "pages") as usize;
        let offs: Vec<u64> = life.get("offs").and_then(|x| x.as_array()).map(|a| a.iter().filter_map(|x| x.as_u64()).collect()).unwrap_or_default();
        let fa = match Arena::map(base, pages) {
            Some(a) => a,
            None => {
                emit(json!({"ev":"Note","what":"skipped","why":"target pages occupied"}));
                return;
            }
        };
        // the fakes: one page 64 MiB above the targets
        let fk = match Arena::map(base + (64 << 20), 1) {
            Some(a) => a,
            None => {
                emit(json!({"ev":"Note","what":"skipped","why":"fake page occupied"}));
                return;
            }
        };
        watch::clear();
        let mut funcs = Vec::new();
        for (k, off) in offs.iter().enumerate() {
            let addr = fa.put_stub(*off as usize, ORIG_ID + 10 * k as u32);
            let fake = fk.put_stub(64 * k, FAKE_ID + 10 * k as u32);
            funcs.push((addr, fake));
        }
        fa.seal();
        fk.seal();
        let mut origs = Vec::new();
        for (k, (addr, _)) in funcs.iter().enumerate() {
            watch::add_entry(&format!("f{}", k + 1), *addr, 16.min((fa.base + fa.len as u64 - addr) as usize));
            origs.push(unsafe { std::slice::from_raw_parts(*addr as *const u8, 6) }.to_vec());
        }
        for (k, &(fa_addr, _)) in foreign.iter().enumerate() {
            watch::add_arena(&format!("foreign{}", k + 1), fa_addr, 4096);
        }
        let as_bool = life.get("bool").and_then(|x| x.as_bool()).unwrap_or(false);
        let mut inj = in_lib(InjectorPP::new);
        let mut tramps = Vec::new();
        for (k, (addr, fake)) in funcs.iter().enumerate() {
            let before: BTreeSet<u64> = interpose::OWNED.lock().unwrap().iter().map(|x| x.0).collect();
            // "bool": every installation of this lifetime forces a boolean (alternating values) instead of redirecting
            let r = catch_unwind(AssertUnwindSafe(|| {
                in_lib(|| unsafe {
                    if as_bool {
                        inj.when_called(FuncPtr::new(*addr as *const (), "extern \"C\" fn() -> bool")).will_return_boolean(k % 2 == 0)
                    } else {
                        inj.when_called(FuncPtr::new(*addr as *const (), "extern \"C\" fn() -> u32"))
                            .will_execute_raw(FuncPtr::new(*fake as *const (), "extern \"C\" fn() -> u32"))
                    }
                })
            }));
            interpose::set_in_lib(false);
            watch::diff_all("install-end");
            let after: Vec<u64> = interpose::OWNED.lock().unwrap().iter().map(|x| x.0).filter(|a| !before.contains(a)).collect();
            let tramp = after.last().copied().unwrap_or(0);
            tramps.push(tramp);
            let (outcome, cls) = match &r {
                Ok(()) => ("ok", ""),
                Err(p) => ("panic", panics::classify(&panics::payload_str(&**p)).0),
            };
            emit(json!({"ev":"MInstalled","life":li + 1,"idx":k + 1,"outcome":outcome,"cls":cls,"func":a8(*addr),"tramp":a8(tramp),
                "tramp_name":format!("m{:x}", tramp),"new_mappings":after.len(),"live":interpose::owned_live()}));
        }
        // the state every call will run through, read after ALL installations
        for (k, (addr, fake)) in funcs.iter().enumerate() {
            let tramp = tramps[k];
            let mapped = tramp != 0 && interpose::OWNED.lock().unwrap().iter().any(|x| x.0 == tramp);
            let entry = unsafe { std::slice::from_raw_parts(*addr as *const u8, 16.min((fa.base + fa.len as u64 - addr) as usize)) }.to_vec();
            let trampb = if mapped { unsafe { std::slice::from_raw_parts(tramp as *const u8, 16) }.to_vec() } else { vec![0u8; 16] };
            emit(json!({"ev":"MState","life":li + 1,"idx":k + 1,"func":a8(*addr),"entry":entry,"tramp":a8(tramp),"trampb":trampb,
                "tramp_mapped":mapped,"fake":a8(*fake),"fake_known":true,"kind": if as_bool { "bool" } else { "jump" },
                "v": if k % 2 == 0 { 1 } else { 0 },
                "extra": if as_bool && mapped { follow(tramp, &trampb) } else { Vec::new() }}));
        }
        for (k, (addr, _)) in funcs.iter().enumerate() {
            if as_bool {
                emit(json!({"ev":"MCalled","life":li + 1,"idx":k + 1,"phase":"installed","res":call_stub(*addr) & 0xff,"want": if k % 2 == 0 { 1 } else { 0 }}));
            } else {
                emit(json!({"ev":"MCalled","life":li + 1,"idx":k + 1,"phase":"installed","res":call_stub(*addr),"want":FAKE_ID + 10 * k as u32}));
            }
        }
        in_lib(|| drop(inj));
        watch::diff_all("drop-end");
        let restored = funcs.iter().enumerate().all(|(k, (addr, _))| unsafe { std::slice::from_raw_parts(*addr as *const u8, 6) } == &origs[k][..]);
        emit(json!({"ev":"MDropped","life":li + 1,"restored":restored,"live":interpose::owned_live()}));
        for (k, (addr, _)) in funcs.iter().enumerate() {
            emit(json!({"ev":"MCalled","life":li + 1,"idx":k + 1,"phase":"dropped","res":call_stub(*addr),"want":ORIG_ID + 10 * k as u32}));
        }
        fa.unmap();
        fk.unmap();
        // the rest of the process: once the library has given a trampoline page back, anybody may get that address.
        // Somebody does (a hinted, non-fixed mmap) and keeps code there; the following lifetimes must leave it alone.
        if sc.get("foreign_after_drop").and_then(|x| x.as_bool()).unwrap_or(false) {
            for t in tramps.iter().filter(|t| **t != 0) {
                if foreign.iter().any(|f| f.0 == *t) {
                    continue;
                }
                let r = unsafe { interpose::raw_mmap(*t, 4096, libc::PROT_READ | libc::PROT_WRITE, libc::MAP_PRIVATE | libc::MAP_ANONYMOUS, -1, 0) };
                if r == *t {
                    let pat: Vec<u8> = (0..4096u32).map(|i| if i % 16 == 0 { 0xB8 } else if i % 16 == 5 { 0xC3 } else { (i % 251) as u8 }).collect();
                    unsafe {
                        std::ptr::copy_nonoverlapping(pat.as_ptr(), r as *mut u8, 4096);
                        interpose::raw_mprotect(r, 4096, libc::PROT_READ | libc::PROT_EXEC);
                    }
                    interpose::FOREIGN.lock().unwrap().push((r, 4096));
                    foreign.push((r, pat));
                } else if (r as i64) > 0 {
                    unsafe { interpose::raw_munmap(r, 4096) };
                }
            }
        }
        for (k, (fa_addr, pat)) in foreign.iter().enumerate() {
            let mapped = watch::proc_maps().iter().any(|m| m.lo <= *fa_addr && *fa_addr + 4096 <= m.hi);
            let intact = mapped && unsafe { std::slice::from_raw_parts(*fa_addr as *const u8, 4096) } == &pat[..];
            emit(json!({"ev":"Foreign","life":li + 1,"idx":k + 1,"addr":a8(*fa_addr),"mapped":mapped,"intact":intact}));
        }
    }
}

// ---------------------------------------------------------------- async flavour (C14 through the placement lattice)
#[inline(never)]
pub async fn pl_async_target(x: u32) -> u32 {
    std::hint::black_box(x) + 1000
}
#[inline(never)]
pub async fn pl_async_sibling(x: u32) -> u32 {
    std::hint::black_box(x) + 2000
}
#[inline(never)]
pub fn pl_async_fake_poll() -> std::task::Poll<u32> {
    std::task::Poll::Ready(std::hint::black_box(3000))
}
fn poll_addr<F: std::future::Future>(_: &F) -> u64 {
    (<F as std::future::Future>::poll as fn(std::pin::Pin<&mut F>, &mut std::task::Context<'_>) -> std::task::Poll<F::Output>) as usize as u64
}

/// the poll function of an async fn is the target (in the harness text); the trampoline page is dictated relative to it;
/// the fake is a forwarder (mov rax, pl_async_fake_poll; jmp rax) in an arena at an exact displacement from the trampoline
fn run_async(sc: &Value) {
    panics::install_hook();
    let want_disp = i(sc, "disp");
    let tramp_delta = i(sc, "tramp_delta_pages");
    let probe_fut = pl_async_target(0);
    let func_addr = poll_addr(&probe_fut);
    drop(probe_fut);
    let tramp_page = (page(func_addr) as i64 + tramp_delta * 4096) as u64;
    let fake_addr = (tramp_page + 5).wrapping_add(want_disp as u64);
    emit(json!({"ev":"Place","func":a8(func_addr),"tramp_page":a8(tramp_page),"fake":a8(fake_addr),"flavour":"async",
        "disp":want_disp,"off":func_addr & 0xfff,"tramp_delta_pages":tramp_delta,"dictate":true}));
    if fake_addr < 4096 || fake_addr >= (1u64 << 47) - 8192 {
        emit(json!({"ev":"Note","what":"skipped","why":"fake address outside user space"}));
        return;
    }
    let fk = match arena_for(fake_addr, 12) {
        Some(a) => a,
        None => {
            emit(json!({"ev":"Note","what":"skipped","why":"fake pages occupied"}));
            return;
        }
    };
    let mut code = vec![0x48u8, 0xB8];
    code.extend_from_slice(&(pl_async_fake_poll as usize as u64).to_le_bytes());
    code.extend_from_slice(&[0xFF, 0xE0]);
    fk.put_bytes((fake_addr - fk.base) as usize, &code);
    fk.seal();
    watch::clear();
    watch::add_entry("f1", func_addr, 32);
    let origb = unsafe { std::slice::from_raw_parts(func_addr as *const u8, 16) }.to_vec();
    let split = 4096 - (func_addr & 0xfff) as usize;
    emit(json!({"ev":"Target","f":"f1","orig":origb,"split":split,"rwpages":watch::writable_pages(func_addr),"addr":a8(func_addr)}));
    let mut free = BTreeSet::new();
    free.insert(tramp_page);
    interpose::QUIET_FAILS.store(true, SeqCst);
    interpose::set_policy(Some(Policy { free: Some(free), occupied: 4, ..Default::default() }));
    let mut inj = in_lib(InjectorPP::new);
    let r = catch_unwind(AssertUnwindSafe(|| {
        in_lib(|| unsafe {
            inj.when_called_async_unchecked(injectorpp::async_func_unchecked!(pl_async_target(0)))
                .will_return_async_unchecked(FuncPtr::new(fake_addr as *const (), ""))
        })
    }));
    interpose::set_policy(None);
    interpose::QUIET_FAILS.store(false, SeqCst);
    watch::diff_all("install-end");
    let entry = unsafe { std::slice::from_raw_parts(func_addr as *const u8, 16) }.to_vec();
    if r.is_ok() && entry == origb {
        // the poll function the library patched is another instance than the one this driver located
        emit(json!({"ev":"Note","what":"skipped","why":"poll function instance not located"}));
        return;
    }
    let tramp = interpose::OWNED.lock().unwrap().last().map(|x| x.0).unwrap_or(0);
    let trampb = if tramp != 0 { unsafe { std::slice::from_raw_parts(tramp as *const u8, 16) }.to_vec() } else { vec![0u8; 16] };
    let (outcome, cls, msg) = match &r {
        Ok(()) => ("ok", "", String::new()),
        Err(p) => {
            let m = panics::payload_str(&**p);
            ("panic", panics::classify(&m).0, m)
        }
    };
    emit(json!({"ev":"Installed","outcome":outcome,"cls":cls,"msg":msg,"kind":"jump","v":0,
        "func":a8(func_addr),"tramp":a8(tramp),"tramp_name":format!("m{:x}", tramp),"fake":a8(fake_addr),"fake_known":true,
        "entry":entry,"trampb":trampb,"origb":origb,"want":3000,"orig_id":1007,
        "quiet_mmap":interpose::QUIET_COUNT.swap(0, SeqCst),"live":interpose::owned_live()}));
    let (res, _) = crate::asyncs::block_on(pl_async_target(7));
    emit(json!({"ev":"Called","phase":"installed","res":res}));
    // on another thread too, and the sibling keeps its own body
    let res_t = std::thread::spawn(|| crate::asyncs::block_on(pl_async_target(7)).0).join().unwrap_or(0);
    emit(json!({"ev":"Neighbour","which":"other-thread","res":res_t,"want": if outcome == "ok" { 3000 } else { 1007 }}));
    emit(json!({"ev":"Neighbour","which":"sibling","res":crate::asyncs::block_on(pl_async_sibling(7)).0,"want":2007}));
    in_lib(|| drop(inj));
    watch::diff_all("drop-end");
    let entry2 = unsafe { std::slice::from_raw_parts(func_addr as *const u8, 16) }.to_vec();
    emit(json!({"ev":"Dropped","entry":entry2,"live":interpose::owned_live()}));
    emit(json!({"ev":"Called","phase":"dropped","res":crate::asyncs::block_on(pl_async_target(7)).0}));
    emit(json!({"ev":"Neighbour","which":"sibling-after-drop","res":crate::asyncs::block_on(pl_async_sibling(7)).0,"want":2007}));
}

pub fn run(script: &str, out: &str) {
    crate::events::open(out);
    let text = std::fs::read_to_string(script).expect("script");
    for line in text.lines() {
        if line.trim().is_empty() {
            continue;
        }
        let sc: Value = serde_json::from_str(line).expect("scenario json");
        SCENARIO.store(i(&sc, "id") as u64, SeqCst);
        if s(&sc, "flavour") == "async" {
            child::run_logged(30, || run_async(&sc));
        } else if s(&sc, "mode") == "multi" {
            child::run_logged(30, || run_multi(&sc));
        } else {
            child::run_logged(30, || run_one(&sc));
        }
    }
}
