//! Pools of real targets and fakes.  An abstract function `f` (1-based) and an abstract
//! fake `k` are mapped to members of a pool; every abstract kind is rotated over the
//! installation flavours the public API offers.
use injectorpp::interface::injector::*;
use std::hint::black_box;
use std::sync::atomic::{AtomicI64, AtomicU32, AtomicUsize, Ordering::SeqCst};

pub static LAST: AtomicU32 = AtomicU32::new(0);
pub const BAD_ARG: u32 = 0xBAD;

#[derive(Clone, Debug)]
pub struct InstallSpec {
    pub f: usize,
    pub kind: String,    // "jump" | "bool"
    pub fake: String,    // "k1".. | "true" | "false"
    pub flavour: String, // raw | rawfn | closure | fake | counted | unchecked | bool
    pub site: usize,     // 0 = none
    pub n: i64,          // -1 = no count
    pub gate: String,    // ok | sig | bool | null
}

impl InstallSpec {
    pub fn k(&self) -> usize {
        self.fake.trim_start_matches('k').parse().unwrap_or(0)
    }
}

pub trait Pool {
    fn name(&self) -> &'static str;
    fn nfuncs(&self) -> usize;
    fn addr(&self, f: usize) -> u64;
    /// call target f; Ok(name of who answered) or Err(panic message)
    fn call(&self, f: usize, matching: bool) -> Result<String, String>;
    /// same call, but a panic raised by the fake propagates to the caller
    fn call_nocatch(&self, f: usize, matching: bool) -> String;
    fn install(&self, inj: &mut InjectorPP, s: &InstallSpec);
    fn flavours(&self, kind: &str) -> Vec<&'static str>;
}

pub fn catch_call<R>(f: impl FnOnce() -> R) -> Result<R, String> {
    match std::panic::catch_unwind(std::panic::AssertUnwindSafe(f)) {
        Ok(r) => Ok(r),
        Err(p) => Err(crate::panics::payload_str(&*p)),
    }
}

pub fn interpret(last: u32, ret: bool, f: usize) -> String {
    match last {
        0 => if ret { "true".into() } else { "false".into() },
        x if x == 100 + f as u32 => "orig".into(),
        x if (100..200).contains(&x) => format!("orig-of-f{}", x - 100),
        x if (200..300).contains(&x) => format!("k{}", x - 200),
        x => format!("id{}", x),
    }
}

// ------------------------------------------------------------------ counted fake! sites
pub const NSITES: usize = 24;
pub static SITE_N: [AtomicUsize; NSITES] = [const { AtomicUsize::new(0) }; NSITES];
pub static SITE_FAKE: [AtomicU32; NSITES] = [const { AtomicU32::new(0) }; NSITES];
pub static SITE_EVALS: AtomicI64 = AtomicI64::new(0);

pub fn site_n(k: usize) -> usize {
    SITE_N[k].load(SeqCst)
}
pub fn site_hit(k: usize) -> bool {
    SITE_EVALS.fetch_add(1, SeqCst);
    LAST.store(200 + SITE_FAKE[k].load(SeqCst), SeqCst);
    true
}
pub fn plain_hit(j: u32) -> bool {
    LAST.store(200 + j, SeqCst);
    true
}

thread_local! {
    /// FuncPtrs of pool targets made ahead of their use (step "mkptr"): the moment a pointer is made is not the moment it is used
    pub static PTR_STASH: std::cell::RefCell<std::collections::HashMap<usize, FuncPtr>> = std::cell::RefCell::new(std::collections::HashMap::new());
}
/// make and keep a typed pointer to target f of the Rust pool unless one is already kept
pub fn make_ptr(f: usize) {
    let t = rust_target(f);
    PTR_STASH.with(|m| {
        m.borrow_mut().entry(f).or_insert_with(|| injectorpp::func!(t, fn(u32) -> bool));
    });
}

// ================================================================== pool "rust"
macro_rules! targets_u32_bool {
    ($($name:ident = $id:expr),*) => {
        $(
            #[inline(never)]
            pub fn $name(x: u32) -> bool {
                LAST.store(100 + $id, SeqCst);
                let mut a = black_box(x);
                a = a.wrapping_mul(31).wrapping_add(7);
                black_box(a) % 2 == 1
            }
        )*
    };
}
targets_u32_bool!(tb1 = 1, tb2 = 2, tb3 = 3, tb4 = 4);

macro_rules! fakes_u32_bool {
    ($($name:ident = $id:expr),*) => {
        $(
            #[inline(never)]
            pub fn $name(x: u32) -> bool {
                black_box(x);
                LAST.store(200 + $id, SeqCst);
                true
            }
        )*
    };
}
fakes_u32_bool!(fk1 = 1, fk2 = 2, fk3 = 3);

pub use crate::sig::fam::Wide2;
#[inline(never)]
pub fn fk_wrong_sig_wide(x: Wide2) -> bool {
    black_box(x.0);
    LAST.store(298, SeqCst);
    true
}
#[inline(never)]
pub fn fk_wrong_sig_widep(x: *const Wide2) -> bool {
    black_box(x);
    LAST.store(297, SeqCst);
    true
}
#[inline(never)]
pub fn fk_wrong_sig(x: u64) -> bool {
    black_box(x);
    LAST.store(299, SeqCst);
    true
}

macro_rules! site_table {
    ($($k:expr),*) => {
        pub fn counted_site(k: usize) -> (FuncPtr, CallCountVerifier) {
            match k {
                $( $k => injectorpp::fake!(
                        func_type: fn(x: u32) -> bool,
                        when: x != BAD_ARG,
                        returns: site_hit($k),
                        times: site_n($k)
                    ), )*
                _ => panic!("harness: no such site"),
            }
        }
        pub fn counted_site_wrong_sig(k: usize) -> (FuncPtr, CallCountVerifier) {
            match k {
                $( $k => injectorpp::fake!(
                        func_type: fn(x: u64) -> bool,
                        when: x != 0xBAD,
                        returns: site_hit($k),
                        times: site_n($k)
                    ), )*
                _ => panic!("harness: no such site"),
            }
        }
    };
}
site_table!(0, 1, 2, 3, 4, 5, 6, 7, 8, 9, 10, 11, 12, 13, 14, 15, 16, 17, 18, 19, 20, 21, 22, 23);

// hand-written counted pairs (what fake! expands to, written out by the user): a counting replacement function and a
// CallCountVerifier::WithCount on the same static counter, handed to will_execute through the UNCHECKED builder
pub static PAIR_COUNTERS: [AtomicUsize; NSITES] = [const { AtomicUsize::new(0) }; NSITES];
#[inline(never)]
fn pair_fake<const K: usize>(x: u32) -> bool {
    if x != BAD_ARG {
        let prev = PAIR_COUNTERS[K].fetch_add(1, SeqCst);
        if prev >= site_n(K) {
            panic!("Fake function defined at harness pair {} called more times than expected", K);
        }
        site_hit(K)
    } else {
        panic!("Fake function defined at harness pair {} called with unexpected arguments", K);
    }
}
macro_rules! pair_table {
    ($($k:expr),*) => {
        pub fn counted_pair(k: usize) -> (FuncPtr, CallCountVerifier) {
            let f: fn(u32) -> bool = match k {
                $( $k => pair_fake::<$k>, )*
                _ => panic!("harness: no such pair"),
            };
            (unsafe { FuncPtr::new(f as *const (), "") }, CallCountVerifier::WithCount { counter: &PAIR_COUNTERS[k], expected: site_n(k) })
        }
    };
}
pair_table!(0, 1, 2, 3, 4, 5, 6, 7, 8, 9, 10, 11, 12, 13, 14, 15, 16, 17, 18, 19, 20, 21, 22, 23);

pub struct RustPool;

/// pool "rustpg": the same signatures, fakes and sites, but every target is a machine-code stub on a page of
/// its own (`LAST = 100 + f; return false`), so that one target's page can refuse to become writable
pub static PAGED: [std::sync::atomic::AtomicU64; 5] = [const { std::sync::atomic::AtomicU64::new(0) }; 5];
fn paged_code(f: usize, version: usize) -> Vec<u8> {
    // three encodings of the same function (scratch register rax / rcx / rdx, the last one after a nop)
    let (pre, movabs, store): (&[u8], u8, u8) = match version % 3 {
        0 => (&[], 0xB8, 0x00),
        1 => (&[], 0xB9, 0x01),
        _ => (&[0x90], 0xBA, 0x02),
    };
    let mut code = pre.to_vec();
    code.extend_from_slice(&[0x48, movabs]);
    code.extend_from_slice(&(&LAST as *const AtomicU32 as u64).to_le_bytes());
    code.extend_from_slice(&[0xC7, store]);
    code.extend_from_slice(&(100 + f as u32).to_le_bytes());
    code.extend_from_slice(&[0x31, 0xC0, 0xC3]);
    code
}
pub static PAGED_VERSION: [AtomicUsize; 5] = [const { AtomicUsize::new(0) }; 5];
pub fn make_paged() {
    if PAGED[1].load(SeqCst) != 0 {
        return;
    }
    let a = crate::arena::Arena::map_anywhere(10);
    for f in 1..=4usize {
        // f2's entry straddles a page boundary (3 bytes on its first page)
        let off = if f == 2 { (2 * f - 1) * 4096 + 4096 - 3 } else { (2 * f - 1) * 4096 + 0x40 * f };
        let addr = a.put_bytes(off, &paged_code(f, 0));
        PAGED[f].store(addr, SeqCst);
    }
    a.seal();
    std::mem::forget(a);
}
/// the environment replaces the code of target f (same address, same meaning, different bytes) -- JIT output
/// regenerated, a plugin loaded again.  Only while no injector exists.
pub fn regen_paged(f: usize) {
    let addr = PAGED[f].load(SeqCst);
    assert!(addr != 0, "harness: regen needs pool rustpg");
    let v = PAGED_VERSION[f].fetch_add(1, SeqCst) + 1;
    let code = paged_code(f, v);
    unsafe {
        assert_eq!(crate::interpose::raw_mprotect(addr & !0xfff, 4096, libc::PROT_READ | libc::PROT_WRITE), 0);
        std::ptr::write_bytes(addr as *mut u8, 0xCC, 32);
        std::ptr::copy_nonoverlapping(code.as_ptr(), addr as *mut u8, code.len());
        assert_eq!(crate::interpose::raw_mprotect(addr & !0xfff, 4096, libc::PROT_READ | libc::PROT_EXEC), 0);
    }
}

fn rust_target(f: usize) -> fn(u32) -> bool {
    let f = f.clamp(1, 4);
    let p = PAGED[f].load(SeqCst);
    if p != 0 {
        return unsafe { std::mem::transmute::<usize, fn(u32) -> bool>(p as usize) };
    }
    match f {
        1 => tb1,
        2 => tb2,
        3 => tb3,
        _ => tb4,
    }
}
fn rust_fake(k: usize) -> fn(u32) -> bool {
    match k {
        1 => fk1,
        2 => fk2,
        _ => fk3,
    }
}

impl Pool for RustPool {
    fn name(&self) -> &'static str {
        if PAGED[1].load(SeqCst) != 0 { "rustpg" } else { "rust" }
    }
    fn nfuncs(&self) -> usize {
        4
    }
    fn addr(&self, f: usize) -> u64 {
        rust_target(f) as usize as u64
    }
    fn call(&self, f: usize, matching: bool) -> Result<String, String> {
        LAST.store(0, SeqCst);
        let t = black_box(rust_target(f));
        let x = if matching { 1 } else { BAD_ARG };
        catch_call(|| t(x)).map(|r| interpret(LAST.load(SeqCst), r, f))
    }
    fn call_nocatch(&self, f: usize, matching: bool) -> String {
        LAST.store(0, SeqCst);
        let t = black_box(rust_target(f));
        let x = if matching { 1 } else { BAD_ARG };
        let r = t(x);
        interpret(LAST.load(SeqCst), r, f)
    }
    fn flavours(&self, kind: &str) -> Vec<&'static str> {
        match kind {
            "bool" => vec!["bool"],
            "counted" => vec!["counted"],
            _ => vec!["raw", "rawfn", "closure", "fake", "unchecked"],
        }
    }
    fn install(&self, inj: &mut InjectorPP, s: &InstallSpec) {
        let t = rust_target(s.f);
        // the target's FuncPtr: one made earlier and kept (mkptr), or made on the spot
        let stashed = PTR_STASH.with(|m| m.borrow_mut().remove(&s.f));
        macro_rules! tptr {
            () => {
                match stashed {
                    Some(p) => p,
                    None => injectorpp::func!(t, fn(u32) -> bool),
                }
            };
        }
        match s.gate.as_str() {
            "abandon" => {
                // a builder dropped without a terminal call
                let _b = inj.when_called(injectorpp::func!(t, fn(u32) -> bool));
                return;
            }
            "sig" => {
                if s.n >= 0 {
                    SITE_N[s.site - 1].store(s.n as usize, SeqCst);
                    SITE_FAKE[s.site - 1].store(s.k() as u32, SeqCst);
                    inj.when_called(injectorpp::func!(t, fn(u32) -> bool)).will_execute(counted_site_wrong_sig(s.site - 1));
                } else {
                    // three replacements of another type: a short one, and two whose rendered type is long and made of two-byte
                    // characters (by value / behind a pointer: the refusal's message must cope with both)
                    match (s.f + s.k()) % 3 {
                        0 => inj.when_called(injectorpp::func!(t, fn(u32) -> bool))
                            .will_execute_raw(injectorpp::func!(fk_wrong_sig, fn(u64) -> bool)),
                        1 => inj.when_called(injectorpp::func!(t, fn(u32) -> bool))
                            .will_execute_raw(injectorpp::func!(fk_wrong_sig_wide, fn(Wide2) -> bool)),
                        _ => inj.when_called(injectorpp::func!(t, fn(u32) -> bool))
                            .will_execute_raw(injectorpp::func!(fk_wrong_sig_widep, fn(*const Wide2) -> bool)),
                    }
                }
                return;
            }
            "bool" => {
                // a pointer from the unchecked macro carries no signature: the bool gate refuses
                unsafe { inj.when_called_unchecked(injectorpp::func_unchecked!(t)).will_return_boolean(true) };
                return;
            }
            "null" => {
                inj.when_called(injectorpp::func!(t, fn(u32) -> bool))
                    .will_execute_raw(unsafe { FuncPtr::new(std::ptr::null(), "fn(u32) -> bool") });
                return;
            }
            _ => {}
        }
        if s.kind == "bool" {
            inj.when_called(tptr!()).will_return_boolean(s.fake == "true");
            return;
        }
        let k = s.k();
        let fk = rust_fake(k);
        match s.flavour.as_str() {
            "raw" => inj.when_called(tptr!()).will_execute_raw(injectorpp::func!(fk, fn(u32) -> bool)),
            "rawfn" => inj.when_called(injectorpp::func!(fn (t)(u32) -> bool)).will_execute_raw(injectorpp::func!(fn (fk)(u32) -> bool)),
            "closure" => {
                let c = match k {
                    1 => injectorpp::closure!(|_x: u32| -> bool { plain_hit(1) }, fn(u32) -> bool),
                    2 => injectorpp::closure!(|_x: u32| -> bool { plain_hit(2) }, fn(u32) -> bool),
                    _ => injectorpp::closure!(|_x: u32| -> bool { plain_hit(3) }, fn(u32) -> bool),
                };
                inj.when_called(tptr!()).will_execute_raw(c)
            }
            "fake" => {
                let p = match k {
                    1 => injectorpp::fake!(func_type: fn(_x: u32) -> bool, returns: plain_hit(1)),
                    2 => injectorpp::fake!(func_type: fn(_x: u32) -> bool, returns: plain_hit(2)),
                    _ => injectorpp::fake!(func_type: fn(_x: u32) -> bool, returns: plain_hit(3)),
                };
                inj.when_called(tptr!()).will_execute(p)
            }
            "counted" => {
                SITE_N[s.site - 1].store(s.n as usize, SeqCst);
                SITE_FAKE[s.site - 1].store(k as u32, SeqCst);
                inj.when_called(tptr!()).will_execute(counted_site(s.site - 1))
            }
            "countedpair" => {
                SITE_N[s.site - 1].store(s.n as usize, SeqCst);
                SITE_FAKE[s.site - 1].store(k as u32, SeqCst);
                unsafe { inj.when_called_unchecked(injectorpp::func_unchecked!(t)).will_execute(counted_pair(s.site - 1)) }
            }
            "unchecked" => unsafe {
                inj.when_called_unchecked(injectorpp::func_unchecked!(t)).will_execute_raw_unchecked(injectorpp::func_unchecked!(fk))
            },
            x => panic!("harness: unknown flavour {x}"),
        }
    }
}

// ================================================================== pool "libc"
// targets live in libc.so (far from the harness text => the trampoline uses its long, absolute
// form); never called by the harness or std while a scenario runs
use libc::{c_char, c_int};

type LibcFn = unsafe extern "C" fn(*const c_char) -> c_int;

fn libc_target(f: usize) -> LibcFn {
    match f {
        1 => libc::atoi,
        2 => libc::unlink,
        3 => libc::rmdir,
        _ => libc::chdir,
    }
}
macro_rules! libc_fakes {
    ($($name:ident = $id:expr),*) => {
        $( #[inline(never)] pub unsafe extern "C" fn $name(p: *const c_char) -> c_int { black_box(p); LAST.store(200 + $id, SeqCst); 7000 + $id } )*
    };
}
libc_fakes!(lk1 = 1, lk2 = 2, lk3 = 3);
fn libc_fake(k: usize) -> LibcFn {
    match k {
        1 => lk1,
        2 => lk2,
        _ => lk3,
    }
}
macro_rules! libc_site_table {
    ($($k:expr),*) => {
        pub fn libc_counted_site(k: usize) -> (FuncPtr, CallCountVerifier) {
            match k {
                $( $k => injectorpp::fake!(
                        func_type: unsafe extern "C" fn(p: *const c_char) -> c_int,
                        when: !p.is_null(),
                        returns: { site_hit($k); 7000 + SITE_FAKE[$k].load(SeqCst) as c_int },
                        times: site_n($k)
                    ), )*
                _ => panic!("harness: no such site"),
            }
        }
    };
}
libc_site_table!(0, 1, 2, 3, 4, 5, 6, 7, 8, 9, 10, 11);

pub struct LibcPool;
impl Pool for LibcPool {
    fn name(&self) -> &'static str {
        "libc"
    }
    fn nfuncs(&self) -> usize {
        4
    }
    fn addr(&self, f: usize) -> u64 {
        libc_target(f) as usize as u64
    }
    fn call(&self, f: usize, matching: bool) -> Result<String, String> {
        LAST.store(0, SeqCst);
        let t = black_box(libc_target(f));
        let arg: *const c_char = if matching { b"42-no-such-verif-path\0".as_ptr() as *const c_char } else { std::ptr::null() };
        if !matching && f != 0 {
            // the original functions must not be handed a null pointer: only a counted fake (whose
            // `when` rejects null) is ever called this way; the driver guarantees one is installed
        }
        catch_call(|| unsafe { t(arg) }).map(|r| match LAST.load(SeqCst) {
            0 => if (f == 1 && r == 42) || (f != 1 && r == -1) { "orig".into() } else { format!("ret{r}") },
            x if (200..300).contains(&x) => format!("k{}", x - 200),
            x => format!("id{x}"),
        })
    }
    fn call_nocatch(&self, f: usize, matching: bool) -> String {
        self.call(f, matching).unwrap_or_else(|m| std::panic::panic_any(m))
    }
    fn flavours(&self, kind: &str) -> Vec<&'static str> {
        match kind {
            "counted" => vec!["counted"],
            "bool" => vec![],
            _ => vec!["raw", "fake", "unchecked"],
        }
    }
    fn install(&self, inj: &mut InjectorPP, s: &InstallSpec) {
        let t = libc_target(s.f);
        match s.gate.as_str() {
            "abandon" => {
                let _b = unsafe { inj.when_called_unchecked(injectorpp::func_unchecked!(t)) };
                return;
            }
            "sig" => {
                inj.when_called(injectorpp::func!(t, unsafe extern "C" fn(*const c_char) -> c_int))
                    .will_execute_raw(injectorpp::func!(fk_wrong_sig, fn(u64) -> bool));
                return;
            }
            "bool" => {
                inj.when_called(injectorpp::func!(t, unsafe extern "C" fn(*const c_char) -> c_int)).will_return_boolean(true);
                return;
            }
            "null" => {
                inj.when_called(injectorpp::func!(t, unsafe extern "C" fn(*const c_char) -> c_int))
                    .will_execute_raw(unsafe { FuncPtr::new(std::ptr::null(), "x") });
                return;
            }
            _ => {}
        }
        let k = s.k();
        let fk = libc_fake(k);
        match s.flavour.as_str() {
            "counted" => {
                SITE_N[s.site - 1].store(s.n as usize, SeqCst);
                SITE_FAKE[s.site - 1].store(k as u32, SeqCst);
                inj.when_called(injectorpp::func!(t, unsafe extern "C" fn(*const c_char) -> c_int)).will_execute(libc_counted_site(s.site - 1))
            }
            "fake" => {
                let p = match k {
                    1 => injectorpp::fake!(func_type: unsafe extern "C" fn(_p: *const c_char) -> c_int, returns: { plain_hit(1); 7001 }),
                    2 => injectorpp::fake!(func_type: unsafe extern "C" fn(_p: *const c_char) -> c_int, returns: { plain_hit(2); 7002 }),
                    _ => injectorpp::fake!(func_type: unsafe extern "C" fn(_p: *const c_char) -> c_int, returns: { plain_hit(3); 7003 }),
                };
                inj.when_called(injectorpp::func!(t, unsafe extern "C" fn(*const c_char) -> c_int)).will_execute(p)
            }
            "unchecked" => unsafe {
                inj.when_called_unchecked(injectorpp::func_unchecked!(t)).will_execute_raw_unchecked(injectorpp::func_unchecked!(fk))
            },
            _ => inj
                .when_called(injectorpp::func!(t, unsafe extern "C" fn(*const c_char) -> c_int))
                .will_execute_raw(injectorpp::func!(fk, unsafe extern "C" fn(*const c_char) -> c_int)),
        }
    }
}

// ================================================================== pool "generic"
// two instantiations of one generic function are targets; a third one is never named and must
// keep running its original code (C03: "other instantiations of the same generic function")
#[inline(never)]
pub fn gen_target<T: Copy + Into<u64>>(x: T) -> bool {
    let v: u64 = x.into();
    LAST.store(100 + (std::mem::size_of::<T>() as u32), SeqCst);
    black_box(v.wrapping_mul(31).wrapping_add(7)) % 2 == 1
}
macro_rules! gen_fakes {
    ($($name:ident : $t:ty = $id:expr),*) => {
        $( #[inline(never)] pub fn $name(x: $t) -> bool { black_box(x); LAST.store(200 + $id, SeqCst); true } )*
    };
}
gen_fakes!(g8k1: u8 = 1, g8k2: u8 = 2, g8k3: u8 = 3, g16k1: u16 = 1, g16k2: u16 = 2, g16k3: u16 = 3);

pub struct GenericPool;
impl GenericPool {
    pub fn sibling_ok() -> bool {
        LAST.store(0, SeqCst);
        let f = black_box(gen_target::<u32> as fn(u32) -> bool);
        let _ = f(1);
        LAST.load(SeqCst) == 104
    }
}
impl Pool for GenericPool {
    fn name(&self) -> &'static str {
        "generic"
    }
    fn nfuncs(&self) -> usize {
        2
    }
    fn addr(&self, f: usize) -> u64 {
        if f == 1 { gen_target::<u8> as fn(u8) -> bool as usize as u64 } else { gen_target::<u16> as fn(u16) -> bool as usize as u64 }
    }
    fn call(&self, f: usize, _matching: bool) -> Result<String, String> {
        LAST.store(0, SeqCst);
        let r = if f == 1 {
            let t = black_box(gen_target::<u8> as fn(u8) -> bool);
            catch_call(|| t(1))
        } else {
            let t = black_box(gen_target::<u16> as fn(u16) -> bool);
            catch_call(|| t(1))
        };
        r.map(|ret| match LAST.load(SeqCst) {
            0 => if ret { "true".into() } else { "false".into() },
            101 if f == 1 => "orig".into(),
            102 if f == 2 => "orig".into(),
            x if (200..300).contains(&x) => format!("k{}", x - 200),
            x => format!("id{x}"),
        })
    }
    fn call_nocatch(&self, f: usize, m: bool) -> String {
        self.call(f, m).unwrap_or_else(|e| std::panic::panic_any(e))
    }
    fn flavours(&self, kind: &str) -> Vec<&'static str> {
        match kind {
            "bool" => vec!["bool"],
            "counted" => vec![],
            _ => vec!["raw", "unchecked"],
        }
    }
    fn install(&self, inj: &mut InjectorPP, s: &InstallSpec) {
        let k = s.k();
        if s.gate == "abandon" {
            let _b = inj.when_called(injectorpp::func!(gen_target::<u8>, fn(u8) -> bool));
            return;
        }
        if s.gate != "ok" {
            // refusals: a fake of the OTHER instantiation's type
            if s.f == 1 {
                inj.when_called(injectorpp::func!(gen_target::<u8>, fn(u8) -> bool)).will_execute_raw(injectorpp::func!(g16k1, fn(u16) -> bool));
            } else {
                inj.when_called(injectorpp::func!(gen_target::<u16>, fn(u16) -> bool)).will_execute_raw(injectorpp::func!(g8k1, fn(u8) -> bool));
            }
            return;
        }
        if s.kind == "bool" {
            if s.f == 1 {
                inj.when_called(injectorpp::func!(gen_target::<u8>, fn(u8) -> bool)).will_return_boolean(s.fake == "true");
            } else {
                inj.when_called(injectorpp::func!(gen_target::<u16>, fn(u16) -> bool)).will_return_boolean(s.fake == "true");
            }
            return;
        }
        let unchecked = s.flavour == "unchecked";
        if s.f == 1 {
            let fk: fn(u8) -> bool = match k { 1 => g8k1, 2 => g8k2, _ => g8k3 };
            if unchecked {
                unsafe { inj.when_called_unchecked(injectorpp::func_unchecked!(gen_target::<u8>)).will_execute_raw_unchecked(injectorpp::func_unchecked!(fk)) }
            } else {
                inj.when_called(injectorpp::func!(gen_target::<u8>, fn(u8) -> bool)).will_execute_raw(injectorpp::func!(fk, fn(u8) -> bool))
            }
        } else {
            let fk: fn(u16) -> bool = match k { 1 => g16k1, 2 => g16k2, _ => g16k3 };
            if unchecked {
                unsafe { inj.when_called_unchecked(injectorpp::func_unchecked!(gen_target::<u16>)).will_execute_raw_unchecked(injectorpp::func_unchecked!(fk)) }
            } else {
                inj.when_called(injectorpp::func!(gen_target::<u16>, fn(u16) -> bool)).will_execute_raw(injectorpp::func!(fk, fn(u16) -> bool))
            }
        }
    }
}

// ================================================================== pool "async"
// targets are the poll functions of two async fns with the same output type
pub struct AsyncPool;
fn poll_addr<F: std::future::Future>(_f: &F) -> u64 {
    let p: fn(std::pin::Pin<&mut F>, &mut std::task::Context<'_>) -> std::task::Poll<F::Output> = <F as std::future::Future>::poll;
    p as usize as u64
}
impl Pool for AsyncPool {
    fn name(&self) -> &'static str {
        "async"
    }
    fn nfuncs(&self) -> usize {
        2
    }
    fn addr(&self, f: usize) -> u64 {
        if f == 1 { poll_addr(&crate::asyncs::a1(0)) } else { poll_addr(&crate::asyncs::a2(0)) }
    }
    fn call(&self, f: usize, _m: bool) -> Result<String, String> {
        catch_call(|| {
            let (v, _polls) = if f == 1 { crate::asyncs::block_on(crate::asyncs::a1(5)) } else { crate::asyncs::block_on(crate::asyncs::a2(5)) };
            match v {
                1005 if f == 1 => "orig".to_string(),
                2005 if f == 2 => "orig".to_string(),
                7001 => "k1".to_string(),
                7002 => "k2".to_string(),
                7003 => "k3".to_string(),
                x => format!("val{x}"),
            }
        })
    }
    fn call_nocatch(&self, f: usize, m: bool) -> String {
        self.call(f, m).unwrap_or_else(|e| std::panic::panic_any(e))
    }
    fn flavours(&self, kind: &str) -> Vec<&'static str> {
        match kind {
            "jump" => vec!["async", "async_unchecked"],
            _ => vec![],
        }
    }
    fn install(&self, inj: &mut InjectorPP, s: &InstallSpec) {
        use crate::asyncs::{a1, a2};
        if s.gate == "abandon" {
            let _b = inj.when_called_async(injectorpp::async_func!(a1(0), u32));
            return;
        }
        if s.gate != "ok" {
            // wrong output type: refused
            if s.f == 1 {
                inj.when_called_async(injectorpp::async_func!(a1(0), u32)).will_return_async(injectorpp::async_return!(1u64, u64));
            } else {
                inj.when_called_async(injectorpp::async_func!(a2(0), u32)).will_return_async(injectorpp::async_return!(1u64, u64));
            }
            return;
        }
        macro_rules! fake_async {
            ($fun:ident, $val:expr) => {
                if s.flavour == "async_unchecked" {
                    unsafe {
                        inj.when_called_async_unchecked(injectorpp::async_func_unchecked!($fun(0)))
                            .will_return_async_unchecked(injectorpp::async_return_unchecked!($val, u32))
                    }
                } else {
                    inj.when_called_async(injectorpp::async_func!($fun(0), u32)).will_return_async(injectorpp::async_return!($val, u32))
                }
            };
        }
        match (s.f, s.k()) {
            (1, 1) => fake_async!(a1, 7001u32),
            (1, 2) => fake_async!(a1, 7002u32),
            (1, _) => fake_async!(a1, 7003u32),
            (_, 1) => fake_async!(a2, 7001u32),
            (_, 2) => fake_async!(a2, 7002u32),
            (_, _) => fake_async!(a2, 7003u32),
        }
    }
}

pub fn make(name: &str) -> Box<dyn Pool> {
    match name {
        "rust" => Box::new(RustPool),
        "rustpg" => {
            make_paged();
            Box::new(RustPool)
        }
        "libc" => Box::new(LibcPool),
        "generic" => Box::new(GenericPool),
        "async" => Box::new(AsyncPool),
        x => panic!("harness: unknown pool {x}"),
    }
}
