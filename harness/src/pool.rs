//! Pools of real targets and fakes.  An abstract function `f` (1-based) and an abstract
//! fake `k` are mapped to members of a pool; every abstract kind is rotated over the
//! installation flavours the public API offers.
use injectorpp::interface::injector::*;
use std::hint::black_box;
use std::sync::atomic::{AtomicI64, AtomicU32, AtomicUsize, Ordering::SeqCst};

pub static LAST: AtomicU32 = AtomicU32::new(0);
pub const BAD_ARG: u32 = 0xBAD;

#[derive(Clone, Debug)]
pub struct InstallSpec {
    pub f: usize,
    pub kind: String,    // "jump" | "bool"
    pub fake: String,    // "k1".. | "true" | "false"
    pub flavour: String, // raw | rawfn | closure | fake | counted | unchecked | bool
    pub site: usize,     // 0 = none
    pub n: i64,          // -1 = no count
    pub gate: String,    // ok | sig | bool | null
}

impl InstallSpec {
    pub fn k(&self) -> usize {
        self.fake.trim_start_matches('k').parse().unwrap_or(0)
    }
}

pub trait Pool {
    fn name(&self) -> &'static str;
    fn nfuncs(&self) -> usize;
    fn addr(&self, f: usize) -> u64;
    /// call target f; Ok(name of who answered) or Err(panic message)
    fn call(&self, f: usize, matching: bool) -> Result<String, String>;
    /// same call, but a panic raised by the fake propagates to the caller
    fn call_nocatch(&self, f: usize, matching: bool) -> String;
    fn install(&self, inj: &mut InjectorPP, s: &InstallSpec);
    fn flavours(&self, kind: &str) -> Vec<&'static str>;
}

pub fn catch_call<R>(f: impl FnOnce() -> R) -> Result<R, String> {
    match std::panic::catch_unwind(std::panic::AssertUnwindSafe(f)) {
        Ok(r) => Ok(r),
        Err(p) => Err(crate::panics::payload_str(&*p)),
    }
}

pub fn interpret(last: u32, ret: bool, f: usize) -> String {
    match last {
        0 => if ret { "true".into() } else { "false".into() },
        x if x == 100 + f as u32 => "orig".into(),
        x if (100..200).contains(&x) => format!("orig-of-f{}", x - 100),
        x if (200..300).contains(&x) => format!("k{}", x - 200),
        x => format!("id{}", x),
    }
}

// ------------------------------------------------------------------ counted fake! sites
pub const NSITES: usize = 24;
pub static SITE_N: [AtomicUsize; NSITES] = [const { AtomicUsize::new(0) }; NSITES];
pub static SITE_FAKE: [AtomicU32; NSITES] = [const { AtomicU32::new(0) }; NSITES];
pub static SITE_EVALS: AtomicI64 = AtomicI64::new(0);

pub fn site_n(k: usize) -> usize {
    SITE_N[k].load(SeqCst)
}
pub fn site_hit(k: usize) -> bool {
    SITE_EVALS.fetch_add(1, SeqCst);
    LAST.store(200 + SITE_FAKE[k].load(SeqCst), SeqCst);
    true
}
pub fn plain_hit(j: u32) -> bool {
    LAST.store(200 + j, SeqCst);
    true
}

// ================================================================== pool "rust"
macro_rules! targets_u32_bool {
    ($($name:ident = $id:expr),*) => {
        $(
            #[inline(never)]
            pub fn $name(x: u32) -> bool {
                LAST.store(100 + $id, SeqCst);
                let mut a = black_box(x);
                a = a.wrapping_mul(31).wrapping_add(7);
                black_box(a) % 2 == 1
            }
        )*
    };
}
targets_u32_bool!(tb1 = 1, tb2 = 2, tb3 = 3, tb4 = 4);

macro_rules! fakes_u32_bool {
    ($($name:ident = $id:expr),*) => {
        $(
            #[inline(never)]
            pub fn $name(x: u32) -> bool {
                black_box(x);
                LAST.store(200 + $id, SeqCst);
                true
            }
        )*
    };
}
fakes_u32_bool!(fk1 = 1, fk2 = 2, fk3 = 3);

#[inline(never)]
pub fn fk_wrong_sig(x: u64) -> bool {
    black_box(x);
    LAST.store(299, SeqCst);
    true
}

macro_rules! site_table {
    ($($k:expr),*) => {
        pub fn counted_site(k: usize) -> (FuncPtr, CallCountVerifier) {
            match k {
                $( $k => injectorpp::fake!(
                        func_type: fn(x: u32) -> bool,
                        when: x != BAD_ARG,
                        returns: site_hit($k),
                        times: site_n($k)
                    ), )*
                _ => panic!("harness: no such site"),
            }
        }
        pub fn counted_site_wrong_sig(k: usize) -> (FuncPtr, CallCountVerifier) {
            match k {
                $( $k => injectorpp::fake!(
                        func_type: fn(x: u64) -> bool,
                        when: x != 0xBAD,
                        returns: site_hit($k),
                        times: site_n($k)
                    ), )*
                _ => panic!("harness: no such site"),
            }
        }
    };
}
site_table!(0, 1, 2, 3, 4, 5, 6, 7, 8, 9, 10, 11, 12, 13, 14, 15, 16, 17, 18, 19, 20, 21, 22, 23);

pub struct RustPool;

fn rust_target(f: usize) -> fn(u32) -> bool {
    match f {
        1 => tb1,
        2 => tb2,
        3 => tb3,
        _ => tb4,
    }
}
fn rust_fake(k: usize) -> fn(u32) -> bool {
    match k {
        1 => fk1,
        2 => fk2,
        _ => fk3,
    }
}

impl Pool for RustPool {
    fn name(&self) -> &'static str {
        "rust"
    }
    fn nfuncs(&self) -> usize {
        4
    }
    fn addr(&self, f: usize) -> u64 {
        rust_target(f) as usize as u64
    }
    fn call(&self, f: usize, matching: bool) -> Result<String, String> {
        LAST.store(0, SeqCst);
        let t = black_box(rust_target(f));
        let x = if matching { 1 } else { BAD_ARG };
        catch_call(|| t(x)).map(|r| interpret(LAST.load(SeqCst), r, f))
    }
    fn call_nocatch(&self, f: usize, matching: bool) -> String {
        LAST.store(0, SeqCst);
        let t = black_box(rust_target(f));
        let x = if matching { 1 } else { BAD_ARG };
        let r = t(x);
        interpret(LAST.load(SeqCst), r, f)
    }
    fn flavours(&self, kind: &str) -> Vec<&'static str> {
        match kind {
            "bool" => vec!["bool"],
            "counted" => vec!["counted"],
            _ => vec!["raw", "rawfn", "closure", "fake", "unchecked"],
        }
    }
    fn install(&self, inj: &mut InjectorPP, s: &InstallSpec) {
        let t = rust_target(s.f);
        match s.gate.as_str() {
            "sig" => {
                if s.n >= 0 {
                    SITE_N[s.site - 1].store(s.n as usize, SeqCst);
                    SITE_FAKE[s.site - 1].store(s.k() as u32, SeqCst);
                    inj.when_called(injectorpp::func!(t, fn(u32) -> bool)).will_execute(counted_site_wrong_sig(s.site - 1));
                } else {
                    inj.when_called(injectorpp::func!(t, fn(u32) -> bool))
                        .will_execute_raw(injectorpp::func!(fk_wrong_sig, fn(u64) -> bool));
                }
                return;
            }
            "bool" => {
                // a pointer from the unchecked macro carries no signature: the bool gate refuses
                unsafe { inj.when_called_unchecked(injectorpp::func_unchecked!(t)).will_return_boolean(true) };
                return;
            }
            "null" => {
                inj.when_called(injectorpp::func!(t, fn(u32) -> bool))
                    .will_execute_raw(unsafe { FuncPtr::new(std::ptr::null(), "fn(u32) -> bool") });
                return;
            }
            _ => {}
        }
        if s.kind == "bool" {
            inj.when_called(injectorpp::func!(t, fn(u32) -> bool)).will_return_boolean(s.fake == "true");
            return;
        }
        let k = s.k();
        let fk = rust_fake(k);
        match s.flavour.as_str() {
            "raw" => inj.when_called(injectorpp::func!(t, fn(u32) -> bool)).will_execute_raw(injectorpp::func!(fk, fn(u32) -> bool)),
            "rawfn" => inj.when_called(injectorpp::func!(fn (t)(u32) -> bool)).will_execute_raw(injectorpp::func!(fn (fk)(u32) -> bool)),
            "closure" => {
                let c = match k {
                    1 => injectorpp::closure!(|_x: u32| -> bool { plain_hit(1) }, fn(u32) -> bool),
                    2 => injectorpp::closure!(|_x: u32| -> bool { plain_hit(2) }, fn(u32) -> bool),
                    _ => injectorpp::closure!(|_x: u32| -> bool { plain_hit(3) }, fn(u32) -> bool),
                };
                inj.when_called(injectorpp::func!(t, fn(u32) -> bool)).will_execute_raw(c)
            }
            "fake" => {
                let p = match k {
                    1 => injectorpp::fake!(func_type: fn(_x: u32) -> bool, returns: plain_hit(1)),
                    2 => injectorpp::fake!(func_type: fn(_x: u32) -> bool, returns: plain_hit(2)),
                    _ => injectorpp::fake!(func_type: fn(_x: u32) -> bool, returns: plain_hit(3)),
                };
                inj.when_called(injectorpp::func!(t, fn(u32) -> bool)).will_execute(p)
            }
            "counted" => {
                SITE_N[s.site - 1].store(s.n as usize, SeqCst);
                SITE_FAKE[s.site - 1].store(k as u32, SeqCst);
                inj.when_called(injectorpp::func!(t, fn(u32) -> bool)).will_execute(counted_site(s.site - 1))
            }
            "unchecked" => unsafe {
                inj.when_called_unchecked(injectorpp::func_unchecked!(t)).will_execute_raw_unchecked(injectorpp::func_unchecked!(fk))
            },
            x => panic!("harness: unknown flavour {x}"),
        }
    }
}

pub fn make(name: &str) -> Box<dyn Pool> {
    match name {
        "rust" => Box::new(RustPool),
        x => panic!("harness: unknown pool {x}"),
    }
}
