//! Memory watch: copies of entry slots, owned trampolines and (coarser) every readable
//! executable mapping; diffs become `Write` / `Diff` events.
use crate::events::{a8, emit};
use serde_json::json;
use std::sync::Mutex;

pub struct Region {
    pub kind: &'static str, // "entry" | "tramp" | "arena"
    pub name: String,
    pub addr: u64,
    pub len: usize,
    pub snap: Vec<u8>,
}

pub static REGIONS: Mutex<Vec<Region>> = Mutex::new(Vec::new());

unsafe fn peek(addr: u64, len: usize) -> Vec<u8> {
    std::slice::from_raw_parts(addr as *const u8, len).to_vec()
}

pub fn clear() {
    REGIONS.lock().unwrap().clear();
}

/// watch `len` bytes at the entry of target `name` (slot + following neighbour bytes)
pub fn add_entry(name: &str, addr: u64, len: usize) {
    let mut r = REGIONS.lock().unwrap();
    if r.iter().any(|x| x.kind == "entry" && x.addr == addr) {
        return;
    }
    let snap = unsafe { peek(addr, len) };
    r.push(Region { kind: "entry", name: name.to_string(), addr, len, snap });
}

/// watch bytes that nothing may ever write (neighbours, forwarded-to bodies)
pub fn add_arena(name: &str, addr: u64, len: usize) {
    let snap = unsafe { peek(addr, len) };
    REGIONS.lock().unwrap().push(Region { kind: "arena", name: name.to_string(), addr, len, snap });
}

pub fn add_tramp(addr: u64, len: usize) {
    let l = len.min(64);
    let snap = unsafe { peek(addr, l) };
    REGIONS.lock().unwrap().push(Region { kind: "tramp", name: format!("m{:x}", addr), addr, len: l, snap });
}

pub fn remove_tramp(addr: u64) {
    REGIONS.lock().unwrap().retain(|x| !(x.kind == "tramp" && x.addr == addr));
}

pub fn readable(addr: u64, len: usize) -> bool {
    if len == 0 {
        return true;
    }
    let r = REGIONS.lock().unwrap();
    r.iter().any(|x| {
        let full = if x.kind == "tramp" { 4096 } else { x.len as u64 };
        addr >= x.addr && addr + len as u64 <= x.addr + full
    })
}

/// Compare every watched region with its snapshot; one `Write` event per changed region,
/// carrying the full new content (so the trace spec needs no burst lengths) and the
/// changed offsets. `at` names the observation point that noticed the change.
pub fn diff_all(at: &str) {
    if crate::interpose::QUIET_ALL.load(std::sync::atomic::Ordering::SeqCst) {
        // long cycle runs: keep the snapshots current, log nothing
        let mut r = REGIONS.lock().unwrap();
        for x in r.iter_mut() {
            x.snap = unsafe { peek(x.addr, x.len) };
        }
        return;
    }
    let mut r = REGIONS.lock().unwrap();
    for x in r.iter_mut() {
        let cur = unsafe { peek(x.addr, x.len) };
        if cur != x.snap {
            let changed: Vec<usize> = (0..x.len).filter(|&i| cur[i] != x.snap[i]).map(|i| i + 1).collect();
            emit(json!({"ev":"Write","region":x.kind,"name":x.name,"addr":a8(x.addr),
                "changed":changed,"lo":changed[0],"hi":changed[changed.len()-1],
                "old":x.snap,"new":cur,"at":at}));
            x.snap = cur;
        }
    }
}

// ------------------------------------------------------------------ whole-process view

pub struct Mapping {
    pub lo: u64,
    pub hi: u64,
    pub perms: String,
    pub path: String,
}

pub fn proc_maps() -> Vec<Mapping> {
    let s = std::fs::read_to_string("/proc/self/maps").unwrap_or_default();
    let mut v = Vec::new();
    for line in s.lines() {
        let mut it = line.split_whitespace();
        let range = it.next().unwrap_or("");
        let perms = it.next().unwrap_or("").to_string();
        let _off = it.next();
        let _dev = it.next();
        let _ino = it.next();
        let path = it.next().unwrap_or("").to_string();
        if let Some((a, b)) = range.split_once('-') {
            if let (Ok(lo), Ok(hi)) = (u64::from_str_radix(a, 16), u64::from_str_radix(b, 16)) {
                v.push(Mapping { lo, hi, perms, path });
            }
        }
    }
    v
}

pub fn rwx_anon_count() -> usize {
    proc_maps().iter().filter(|m| m.perms.starts_with("rwx") && m.path.is_empty()).count()
}

pub struct ExecImage {
    pub parts: Vec<(u64, Vec<u8>, String)>,
}

/// copy of every readable executable mapping that is file-backed or an arena (not the
/// injector's own anonymous rwx trampolines, which come and go, and not [vsyscall])
pub fn exec_image(extra: &[(u64, usize)]) -> ExecImage {
    let mut parts = Vec::new();
    for m in proc_maps() {
        let is_exec = m.perms.as_bytes().get(2) == Some(&b'x') && m.perms.starts_with('r');
        if !is_exec || m.path == "[vsyscall]" {
            continue;
        }
        let arena = extra.iter().any(|&(a, l)| m.lo <= a && a + l as u64 <= m.hi);
        if m.path.is_empty() && !arena {
            continue;
        }
        let bytes = unsafe { peek(m.lo, (m.hi - m.lo) as usize) };
        parts.push((m.lo, bytes, m.path.clone()));
    }
    ExecImage { parts }
}

impl ExecImage {
    pub fn total(&self) -> usize {
        self.parts.iter().map(|p| p.1.len()).sum()
    }
    /// byte ranges that differ from the current memory, as (addr, len) with adjacent
    /// differing bytes merged
    pub fn diff(&self) -> Vec<(u64, usize)> {
        let mut out: Vec<(u64, usize)> = Vec::new();
        for (lo, bytes, _) in &self.parts {
            let cur = unsafe { std::slice::from_raw_parts(*lo as *const u8, bytes.len()) };
            if cur == &bytes[..] {
                continue;
            }
            let mut i = 0;
            while i < bytes.len() {
                if cur[i] != bytes[i] {
                    let s = i;
                    while i < bytes.len() && cur[i] != bytes[i] {
                        i += 1;
                    }
                    out.push((lo + s as u64, i - s));
                } else {
                    i += 1;
                }
            }
        }
        out
    }
}

pub fn emit_diff(img: &ExecImage, phase: &str) {
    let d = img.diff();
    let regions: Vec<_> = d
        .iter()
        .map(|&(a, l)| {
            let (sym, off) = symbolise(a, l);
            json!({"addr":a8(a),"len":l,"sym":sym,"off":off})
        })
        .collect();
    emit(json!({"ev":"Diff","phase":phase,"n":regions.len(),"regions":regions,"bytes_compared":img.total()}));
}

// ------------------------------------------------------------------ symbolisation
/// pages (1 = page of the first slot byte, 2 = the next one) that are writable right now
pub fn writable_pages(a: u64) -> Vec<u32> {
    let maps = proc_maps();
    let mut v = Vec::new();
    for (i, pg) in [a & !0xfff, (a & !0xfff) + 4096].iter().enumerate() {
        if maps.iter().any(|m| m.lo <= *pg && *pg < m.hi && m.perms.as_bytes().get(1) == Some(&b'w')) {
            v.push(i as u32 + 1);
        }
    }
    v
}

/// which watched bytes does [start, end) cover: (region name, lo, hi) 1-based inclusive
pub fn covers(start: u64, end: u64) -> Vec<serde_json::Value> {
    let r = REGIONS.lock().unwrap();
    let mut out = Vec::new();
    for x in r.iter() {
        let lo = start.max(x.addr);
        let hi = end.min(x.addr + x.len as u64);
        if lo < hi {
            out.push(json!({"name":x.name,"lo":(lo - x.addr + 1),"hi":(hi - x.addr)}));
        }
    }
    out
}

/// which entry-slot pages does an mprotect of [addr, addr+len) cover
pub fn page_covers(addr: u64, len: usize) -> Vec<serde_json::Value> {
    let r = REGIONS.lock().unwrap();
    let mut out = Vec::new();
    let end = addr + ((len as u64 + 0xfff) & !0xfff);
    for x in r.iter().filter(|x| x.kind == "entry") {
        for (i, pg) in [x.addr & !0xfff, (x.addr & !0xfff) + 4096].iter().enumerate() {
            if addr <= *pg && *pg + 4096 <= end {
                out.push(json!({"name":x.name,"page":i + 1}));
            }
        }
    }
    out
}

/// symbolic name of an address range for Diff events: (sym, off) or ("other", 0)
pub fn symbolise(a: u64, len: usize) -> (String, u64) {
    let r = REGIONS.lock().unwrap();
    for x in r.iter().filter(|x| x.kind == "entry") {
        if a >= x.addr && a + len as u64 <= x.addr + x.len as u64 {
            return (x.name.clone(), a - x.addr + 1);
        }
    }
    ("other".to_string(), 0)
}
