//! The one hook in /repo (`__verif_lock_state`, behind `--cfg injectorpp_verif`): the state of the process-wide guard,
//! observed without taking part in it.  If a change to the library makes the hook itself uncompilable (it names the
//! lock's internals), the harness is built with `--cfg verif_nohook` instead: the state is then reported as 255 = unknown
//! and the trace specifications accept 255 wherever they would ask for "held" (the lock-step and free-running parts of
//! C04 do not depend on the hook).
#[cfg(not(verif_nohook))]
pub fn lock_state() -> u8 {
    injectorpp::interface::injector::__verif_lock_state()
}
#[cfg(verif_nohook)]
pub fn lock_state() -> u8 {
    255
}
