//! C09 / C10 gate drivers: every ordered pair of the signature family through every macro
//! form, and every return type of the boolean-gate family, installed for real.
#[path = "gen/sig_family.rs"]
pub mod fam;

use crate::events::{emit, SCENARIO};
use crate::interpose::{self, in_lib};
use crate::{child, panics};
use injectorpp::interface::injector::*;
use serde_json::{json, Value};
use std::panic::{catch_unwind, AssertUnwindSafe};
use std::sync::atomic::Ordering::SeqCst;

fn os_calls() -> usize {
    interpose::N_MMAP.load(SeqCst) + interpose::N_MPROTECT.load(SeqCst) + interpose::N_FLUSH.load(SeqCst) + interpose::N_MUNMAP.load(SeqCst)
}

fn entry(addr: u64) -> Vec<u8> {
    unsafe { std::slice::from_raw_parts(addr as *const u8, 16) }.to_vec()
}

fn outcome<R>(r: &Result<R, Box<dyn std::any::Any + Send>>) -> (&'static str, &'static str, String) {
    match r {
        Ok(_) => ("accepted", "", String::new()),
        Err(p) => {
            let m = panics::payload_str(&**p);
            ("refused", panics::classify(&m).0, m)
        }
    }
}

/// run `f` from a destructor while the thread is unwinding from an unrelated panic (a fixture's
/// Drop run by the unwinder, with the injector still alive)
fn during_unwind<R: Default>(f: impl FnOnce() -> R) -> R {
    struct OnDrop<F: FnOnce() -> R2, R2>(Option<F>, *mut Option<R2>);
    impl<F: FnOnce() -> R2, R2> Drop for OnDrop<F, R2> {
        fn drop(&mut self) {
            if let Some(f) = self.0.take() {
                let r = f();
                unsafe { *self.1 = Some(r) };
            }
        }
    }
    let mut slot: Option<R> = None;
    let p: *mut Option<R> = &mut slot;
    let _ = catch_unwind(AssertUnwindSafe(|| {
        let _g = OnDrop(Some(f), p);
        std::panic::panic_any(panics::UserPanic);
    }));
    slot.unwrap_or_default()
}

fn pair(a: usize, b: usize, form: &str, types: &Value, primed: bool, checked_first: bool) {
    let before0 = entry(fam::sig_addr(a));
    let mut inj = in_lib(InjectorPP::new);
    if primed {
        // the gate's verdict does not depend on what the injector has installed before: the very same (target, fake) pair
        // goes in through the unchecked entry points first (legal, `unsafe`), then the checked request follows
        let _ = catch_unwind(AssertUnwindSafe(|| {
            in_lib(|| unsafe {
                let (p, _) = fam::sig_fake(b, "unchecked").unwrap();
                inj.when_called_unchecked(fam::sig_target_unchecked(a)).will_execute_raw_unchecked(p)
            })
        }));
        interpose::set_in_lib(false);
    }
    if checked_first {
        // ... nor on an earlier, perfectly valid checked installation of the replacement's own type in the same injector
        // (another function of type tb faked by a tb replacement)
        let _ = catch_unwind(AssertUnwindSafe(|| {
            in_lib(|| {
                if let Some((p, _)) = fam::sig_fake(b, "func") {
                    inj.when_called(fam::sig_target(b)).will_execute_raw(p)
                }
            })
        }));
        interpose::set_in_lib(false);
    }
    let before = entry(fam::sig_addr(a));
    let os0 = os_calls();
    let live0 = interpose::owned_live();
    let r = catch_unwind(AssertUnwindSafe(|| {
        in_lib(|| match form {
            "func" | "closure" => {
                let (p, _) = fam::sig_fake(b, form).unwrap();
                inj.when_called(fam::sig_target(a)).will_execute_raw(p)
            }
            "fake" => {
                let (p, v) = fam::sig_fake(b, form).unwrap();
                inj.when_called(fam::sig_target(a)).will_execute((p, v.unwrap()))
            }
            // a typed target paired with a pointer from the unchecked macros, and the reverse
            "typed-unchecked" => {
                let (p, _) = fam::sig_fake(b, "unchecked").unwrap();
                inj.when_called(fam::sig_target(a)).will_execute_raw(p)
            }
            "unchecked-typed" => {
                let (p, _) = fam::sig_fake(b, "func").unwrap();
                unsafe { inj.when_called_unchecked(fam::sig_target_unchecked(a)).will_execute_raw(p) }
            }
            "null-fake" => {
                let p = unsafe { FuncPtr::new(std::ptr::null(), "fn()") };
                inj.when_called(fam::sig_target(a)).will_execute_raw(p)
            }
            "null-target" => {
                let t = unsafe { FuncPtr::new(std::ptr::null(), "fn()") };
                let (p, _) = fam::sig_fake(b, "func").unwrap();
                inj.when_called(t).will_execute_raw(p)
            }
            x => panic!("harness: form {x}"),
        })
    }));
    let (verdict, cls, msg) = outcome(&r);
    let touched = os_calls() != os0 || entry(fam::sig_addr(a)) != before || interpose::owned_live() != live0;
    // call only when the types are the same (anything else would be undefined behaviour)
    let mut works = json!("n/a");
    if verdict == "accepted" && a == b {
        let m = fam::sig_call(a);
        works = json!(m >= 200 && (m % 100) as usize == b);
    }
    in_lib(|| drop(inj));
    let restored = entry(fam::sig_addr(a)) == before0;
    let orig_ok = if a == b || verdict == "refused" { fam::sig_call(a) == 100 + a as u32 } else { true };
    emit(json!({"ev":"Pair","form":form,"primed":primed,"checked_first":checked_first,"a":a,"b":b,"ta":types[a],"tb":types[b],"verdict":verdict,"cls":cls,"msg":msg,
        "touched":touched,"works":works,"restored":restored && orig_ok}));
}

fn run_pairs(sc: &Value) {
    panics::install_hook();
    let types = sc.get("types").cloned().unwrap_or(json!([]));
    let n = types.as_array().map(|x| x.len()).unwrap_or(0).min(fam::NFAM);
    let form = sc.get("form").and_then(|x| x.as_str()).unwrap_or("func").to_string();
    let primed = sc.get("primed").and_then(|x| x.as_bool()).unwrap_or(false);
    let checked_first = sc.get("checked_first").and_then(|x| x.as_bool()).unwrap_or(false);
    for a in 0..n {
        for b in 0..n {
            let f2 = match form.as_str() {
                "typed-unchecked" | "unchecked-typed" | "null-fake" | "null-target" => "func",
                x => x,
            };
            if fam::sig_fake(b, f2).is_none() {
                continue;
            }
            if (form == "null-fake" || form == "null-target") && a != b {
                continue;
            }
            if checked_first && a == b { continue; }
            pair(a, b, &form, &types, primed, checked_first);
        }
    }
}

fn run_bool(sc: &Value) {
    panics::install_hook();
    let fams = sc.get("bools").cloned().unwrap_or(json!([]));
    let n = fams.as_array().map(|x| x.len()).unwrap_or(0).min(fam::NBOOL);
    for k in 0..n {
        for (v, form) in [(true, "typed"), (false, "typed"), (true, "unchecked"), (true, "typed-unwinding")] {
            let before = entry(fam::bg_addr(k));
            let os0 = os_calls();
            let mut inj = in_lib(InjectorPP::new);
            let r = catch_unwind(AssertUnwindSafe(|| {
                in_lib(|| {
                    if form == "typed" {
                        inj.when_called(fam::bg_target(k)).will_return_boolean(v)
                    } else if form == "typed-unwinding" {
                        // the same request made while the thread is already unwinding: the verdict must not change
                        let refused = during_unwind(|| {
                            catch_unwind(AssertUnwindSafe(|| inj.when_called(fam::bg_target(k)).will_return_boolean(v))).is_err()
                        });
                        if refused {
                            panic!("Signature mismatch: will_return_boolean requires (observed while unwinding)");
                        }
                    } else {
                        // a pointer from the unchecked macros carries no signature at all
                        unsafe { inj.when_called_unchecked(fam::bg_target_unchecked(k)).will_return_boolean(v) }
                    }
                })
            }));
            let (verdict, cls, msg) = outcome(&r);
            let touched = os_calls() != os0 || entry(fam::bg_addr(k)) != before;
            let is_bool = fams[k].get("is_bool").and_then(|x| x.as_bool()).unwrap_or(false);
            let mut works = json!("n/a");
            if verdict == "accepted" && is_bool {
                works = json!(fam::bg_call(k) == Some(v) && fam::MARK.load(SeqCst) == 0);
            }
            in_lib(|| drop(inj));
            let restored = entry(fam::bg_addr(k)) == before;
            emit(json!({"ev":"BoolGate","k":k,"v":v,"form":form,"fam":fams[k],"verdict":verdict,"cls":cls,"msg":msg,"touched":touched,
                "works":works,"restored":restored}));
        }
    }
}

pub fn run(script: &str, out: &str) {
    crate::events::open(out);
    let text = std::fs::read_to_string(script).expect("script");
    for line in text.lines() {
        if line.trim().is_empty() {
            continue;
        }
        let sc: Value = serde_json::from_str(line).expect("scenario json");
        SCENARIO.store(sc.get("id").and_then(|x| x.as_u64()).unwrap_or(0), SeqCst);
        let mode = sc.get("mode").and_then(|x| x.as_str()).unwrap_or("pairs").to_string();
        child::run_logged(60, || if mode == "bool" { run_bool(&sc) } else { run_pairs(&sc) });
    }
}
