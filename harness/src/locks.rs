//! C04 drivers.  (1) lock-step executor: one OS thread per model thread, each performing its
//! next action only when told; an action the specification says must block is started and
//! required NOT to have completed after 20 ms; an action the specification says completes is
//! awaited with a 10 s deadline.  Slow machines can only hide a violation, never invent one.
//! (2) free-running threads with seeded perturbation, recording Acquire / Installed / Call /
//! ReleaseBegin events whose order (sequence numbers under the event lock) TLC validates.
use crate::events::{emit, SCENARIO};
use crate::interpose;
use crate::pool::{self, LAST};
use crate::{child, panics};
use injectorpp::interface::injector::*;
use serde_json::{json, Value};
use std::panic::{catch_unwind, AssertUnwindSafe};
use std::sync::atomic::Ordering::SeqCst;
use std::sync::mpsc::{channel, Receiver, RecvTimeoutError, Sender};
use std::time::Duration;

macro_rules! thread_fakes {
    ($($name:ident = $id:expr),*) => {
        $( #[inline(never)] pub fn $name(x: u32) -> bool { std::hint::black_box(x); LAST.store(210 + $id, SeqCst); true } )*
        fn thread_fake(i: usize) -> fn(u32) -> bool { match i { $( $id => $name, )* _ => panic!("no such thread fake") } }
    };
}
thread_fakes!(tf1 = 1, tf2 = 2, tf3 = 3, tf4 = 4, tf5 = 5, tf6 = 6, tf7 = 7, tf8 = 8);

fn s(v: &Value, k: &str) -> String {
    v.get(k).and_then(|x| x.as_str()).unwrap_or("").to_string()
}
fn i(v: &Value, k: &str) -> i64 {
    v.get(k).and_then(|x| x.as_i64()).unwrap_or(0)
}

fn call_shared() -> String {
    LAST.store(0, SeqCst);
    let f = std::hint::black_box(pool::tb1 as fn(u32) -> bool);
    let r = f(1);
    match LAST.load(SeqCst) {
        101 => "orig".to_string(),
        x if (211..=218).contains(&x) => format!("k{}", x - 210),
        0 => format!("bool-{r}"),
        x => format!("id{x}"),
    }
}

enum Cmd {
    Begin(String),
    Install,
    Call,
    Release(String),
    Quit,
}

enum Guard {
    None,
    Inj(InjectorPP),
    Prev(Preventer),
}

fn worker(idx: usize, rx: Receiver<Cmd>, tx: Sender<(usize, String)>) {
    let mut g = Guard::None;
    loop {
        match rx.recv() {
            Ok(Cmd::Begin(k)) => {
                g = if k == "inj" { Guard::Inj(InjectorPP::new()) } else { Guard::Prev(InjectorPP::prevent()) };
                let _ = tx.send((idx, format!("acquired:{}", crate::hook::lock_state())));
            }
            Ok(Cmd::Install) => {
                if let Guard::Inj(inj) = &mut g {
                    let fk = thread_fake(idx);
                    inj.when_called(injectorpp::func!(pool::tb1, fn(u32) -> bool))
                        .will_execute_raw(injectorpp::func!(fk, fn(u32) -> bool));
                }
                let _ = tx.send((idx, "installed".into()));
            }
            Ok(Cmd::Call) => {
                let _ = tx.send((idx, format!("call:{}", call_shared())));
            }
            Ok(Cmd::Release(how)) => {
                let old = std::mem::replace(&mut g, Guard::None);
                let r = catch_unwind(AssertUnwindSafe(move || {
                    let _keep = old;
                    if how == "panic" {
                        std::panic::panic_any(panics::UserPanic);
                    }
                }));
                let _ = tx.send((idx, format!("released:{}", if r.is_err() { "unwound" } else { "dropped" })));
            }
            Ok(Cmd::Quit) | Err(_) => return,
        }
    }
}

fn tnum(t: &str) -> usize {
    t.trim_start_matches('t').parse().unwrap_or(1)
}

/// wait for a message from thread `idx` (others are queued back)
fn await_from(rx: &Receiver<(usize, String)>, pending: &mut Vec<(usize, String)>, idx: usize, d: Duration) -> Option<String> {
    if let Some(p) = pending.iter().position(|(j, _)| *j == idx) {
        return Some(pending.remove(p).1);
    }
    let t0 = std::time::Instant::now();
    loop {
        let left = d.checked_sub(t0.elapsed()).unwrap_or(Duration::from_millis(0));
        match rx.recv_timeout(left) {
            Ok((j, m)) if j == idx => return Some(m),
            Ok(x) => pending.push(x),
            Err(RecvTimeoutError::Timeout) => return None,
            Err(_) => return None,
        }
    }
}

fn run_schedule(sc: &Value) {
    panics::install_hook();
    let steps = sc.get("steps").and_then(|x| x.as_array()).cloned().unwrap_or_default();
    let nthreads = i(sc, "threads").max(1) as usize;
    let (atx, arx) = channel::<(usize, String)>();
    let mut txs = Vec::new();
    let mut hs = Vec::new();
    for t in 1..=nthreads {
        let (tx, rx) = channel::<Cmd>();
        let atx = atx.clone();
        txs.push(tx);
        hs.push(std::thread::spawn(move || worker(t, rx, atx)));
    }
    let mut pending: Vec<(usize, String)> = Vec::new();
    let long = Duration::from_secs(10);
    // how long a request the specification says must block is watched before it counts as blocked: 20 ms for the bulk of
    // the schedules, seconds or a minute for a few (a wait that gives up after a while is not mutual exclusion)
    let short = Duration::from_millis(sc.get("block_ms").and_then(|x| x.as_u64()).unwrap_or(20));
    for (k, st) in steps.iter().enumerate() {
        let act = s(st, "act");
        let t = tnum(&s(st, "t"));
        let mut ok = true;
        let mut obs = String::new();
        match act.as_str() {
            "Begin" => {
                let _ = txs[t - 1].send(Cmd::Begin(s(st, "kind")));
                let blocks = st.get("blocks").and_then(|x| x.as_bool()).unwrap_or(false);
                if blocks {
                    // must NOT complete
                    if let Some(m) = await_from(&arx, &mut pending, t, short) {
                        ok = false;
                        obs = format!("completed-while-held:{m}");
                    } else {
                        obs = "blocked".into();
                    }
                } else {
                    match await_from(&arx, &mut pending, t, long) {
                        Some(m) => obs = m,
                        None => {
                            ok = false;
                            obs = "did-not-acquire-free-lock".into();
                        }
                    }
                }
            }
            "Acquired" => match await_from(&arx, &mut pending, t, long) {
                Some(m) => obs = m,
                None => {
                    ok = false;
                    obs = "waiter-never-acquired".into();
                }
            },
            "Installed" => {
                let _ = txs[t - 1].send(Cmd::Install);
                match await_from(&arx, &mut pending, t, long) {
                    Some(m) => obs = m,
                    None => {
                        ok = false;
                        obs = "install-hung".into();
                    }
                }
            }
            "Call" => {
                let _ = txs[t - 1].send(Cmd::Call);
                match await_from(&arx, &mut pending, t, long) {
                    Some(m) => {
                        let want = format!("call:{}", s(st, "out"));
                        ok = m == want;
                        obs = m;
                    }
                    None => {
                        ok = false;
                        obs = "call-hung".into();
                    }
                }
            }
            "Release" => {
                let _ = txs[t - 1].send(Cmd::Release(s(st, "how")));
                match await_from(&arx, &mut pending, t, long) {
                    Some(m) => obs = m,
                    None => {
                        ok = false;
                        obs = "release-hung".into();
                    }
                }
            }
            "Released" => {
                obs = format!("lock:{}", crate::hook::lock_state());
            }
            _ => {}
        }
        emit(json!({"ev":"Step","i":k + 1,"act":act,"thread":t,"ok":ok,"obs":obs,"want":st}));
        if !ok {
            break;
        }
    }
    // whoever is still blocked would hang the join: leave through _exit in the child runner
    for tx in &txs {
        let _ = tx.send(Cmd::Quit);
    }
    emit(json!({"ev":"ScheduleEnd","lock":crate::hook::lock_state()}));
    unsafe { libc::_exit(0) };
}

// ------------------------------------------------------------------ free-running
fn run_free(sc: &Value) {
    panics::install_hook();
    let nthreads = (i(sc, "threads") as usize).clamp(1, 8);
    let rounds = i(sc, "rounds") as usize;
    interpose::PERTURB_US.store(i(sc, "perturb_us") as u64, SeqCst);
    let seed = crate::seed_from_env() ^ (i(sc, "id") as u64).wrapping_mul(0x9E3779B97F4A7C15);
    let mut hs = Vec::new();
    for t in 1..=nthreads {
        hs.push(std::thread::spawn(move || {
            let mut x = seed.wrapping_add(t as u64 * 7919) | 1;
            let mut rnd = move || {
                x ^= x << 13;
                x ^= x >> 7;
                x ^= x << 17;
                x
            };
            for _ in 0..rounds {
                let kind_inj = rnd() % 3 != 0;
                let how_panic = rnd() % 4 == 0;
                let nap = rnd() % 300;
                let r = catch_unwind(AssertUnwindSafe(|| {
                    if kind_inj {
                        let mut inj = InjectorPP::new();
                        emit(json!({"ev":"Acquire","thread":t,"kind":"inj","lock":crate::hook::lock_state()}));
                        if rnd() % 5 != 0 {
                            let fk = thread_fake(t);
                            // the library's OS calls are perturbed (sleep inside mprotect/flush/munmap)
                            interpose::in_lib(|| {
                                inj.when_called(injectorpp::func!(pool::tb1, fn(u32) -> bool))
                                    .will_execute_raw(injectorpp::func!(fk, fn(u32) -> bool))
                            });
                            emit(json!({"ev":"Installed","thread":t}));
                        }
                        std::thread::sleep(Duration::from_micros(nap));
                        emit(json!({"ev":"Call","thread":t,"res":call_shared()}));
                        if rnd() % 2 == 0 {
                            std::thread::yield_now();
                            emit(json!({"ev":"Call","thread":t,"res":call_shared()}));
                        }
                        emit(json!({"ev":"ReleaseBegin","thread":t,"how":if how_panic {"panic"} else {"drop"}}));
                        let _perturbed = interpose::set_in_lib(true);
                        if how_panic {
                            std::panic::panic_any(panics::UserPanic);
                        }
                        drop(inj);
                    } else {
                        let _g = InjectorPP::prevent();
                        emit(json!({"ev":"Acquire","thread":t,"kind":"prev","lock":crate::hook::lock_state()}));
                        std::thread::sleep(Duration::from_micros(nap));
                        emit(json!({"ev":"Call","thread":t,"res":call_shared()}));
                        emit(json!({"ev":"ReleaseBegin","thread":t,"how":if how_panic {"panic"} else {"drop"}}));
                        if how_panic {
                            std::panic::panic_any(panics::UserPanic);
                        }
                    }
                }));
                let _ = r;
                interpose::set_in_lib(false);
            }
        }));
    }
    for h in hs {
        let _ = h.join();
    }
    emit(json!({"ev":"FreeEnd","lock":crate::hook::lock_state(),"res":call_shared()}));
}

pub fn run(script: &str, out: &str) {
    crate::events::open(out);
    let text = std::fs::read_to_string(script).expect("script");
    for line in text.lines() {
        if line.trim().is_empty() {
            continue;
        }
        let sc: Value = serde_json::from_str(line).expect("scenario json");
        SCENARIO.store(i(&sc, "id") as u64, SeqCst);
        if s(&sc, "mode") == "free" {
            child::run_logged(120, || run_free(&sc));
        } else {
            let secs = 60 + (sc.get("block_ms").and_then(|x| x.as_u64()).unwrap_or(20) / 1000) as u32 * 4;
            child::run_logged(secs, || run_schedule(&sc));
        }
    }
}
