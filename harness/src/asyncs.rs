//! C14 driver: sibling async functions under a hand-written executor that counts polls.
use crate::events::{emit, SCENARIO};
use crate::interpose::in_lib;
use crate::{child, panics};
use injectorpp::interface::injector::*;
use serde_json::{json, Value};
use std::future::Future;
use std::pin::Pin;
use std::sync::atomic::{AtomicUsize, Ordering::SeqCst};
use std::task::{Context, Poll, RawWaker, RawWakerVTable, Waker};

pub static BODY: [AtomicUsize; 8] = [const { AtomicUsize::new(0) }; 8];
pub static EVALS: AtomicUsize = AtomicUsize::new(0);

struct YieldOnce(bool);
impl Future for YieldOnce {
    type Output = ();
    fn poll(mut self: Pin<&mut Self>, cx: &mut Context<'_>) -> Poll<()> {
        if self.0 {
            Poll::Ready(())
        } else {
            self.0 = true;
            cx.waker().wake_by_ref();
            Poll::Pending
        }
    }
}

#[inline(never)]
pub async fn a1(x: u32) -> u32 {
    BODY[0].fetch_add(1, SeqCst);
    YieldOnce(false).await;
    x + 1000
}
#[inline(never)]
pub async fn a2(x: u32) -> u32 {
    BODY[1].fetch_add(1, SeqCst);
    x + 2000
}
#[inline(never)]
pub async fn a3(s: &str) -> String {
    BODY[2].fetch_add(1, SeqCst);
    format!("orig-{s}")
}
// further shapes: method, unit output, large by-memory output, by-reference parameter
pub struct Svc {
    pub k: u32,
}
impl Svc {
    #[inline(never)]
    pub async fn m(&self, x: u32) -> u32 {
        BODY[3].fetch_add(1, SeqCst);
        self.k + x
    }
}
#[inline(never)]
pub async fn unit_fn(flag: &AtomicUsize) {
    BODY[4].fetch_add(1, SeqCst);
    flag.fetch_add(1, SeqCst);
}
#[derive(Clone, PartialEq, Debug)]
pub struct Big {
    pub w: [u64; 32],
}
#[inline(never)]
pub async fn big_fn(seed: u64) -> Big {
    BODY[5].fetch_add(1, SeqCst);
    Big { w: [seed; 32] }
}
#[inline(never)]
pub async fn bool_fn(x: &u32) -> bool {
    BODY[6].fetch_add(1, SeqCst);
    *x % 2 == 0
}

fn noop_waker() -> Waker {
    fn clone(_: *const ()) -> RawWaker {
        RawWaker::new(std::ptr::null(), &VT)
    }
    fn noop(_: *const ()) {}
    static VT: RawWakerVTable = RawWakerVTable::new(clone, noop, noop, noop);
    unsafe { Waker::from_raw(RawWaker::new(std::ptr::null(), &VT)) }
}

/// poll to completion; returns (value, number of polls)
pub fn block_on<F: Future>(f: F) -> (F::Output, usize) {
    let w = noop_waker();
    let mut cx = Context::from_waker(&w);
    let mut f = std::pin::pin!(f);
    let mut polls = 0;
    loop {
        polls += 1;
        if let Poll::Ready(v) = f.as_mut().poll(&mut cx) {
            return (v, polls);
        }
        assert!(polls < 64, "executor: future never completed");
    }
}

fn fake(inj: &mut InjectorPP, a: &str, v: &str) {
    match (a, v) {
        ("a1", "v1") => inj.when_called_async(injectorpp::async_func!(a1(0), u32))
            .will_return_async(injectorpp::async_return!({ EVALS.fetch_add(1, SeqCst); 7001u32 }, u32)),
        ("a1", _) => inj.when_called_async(injectorpp::async_func!(a1(0), u32))
            .will_return_async(injectorpp::async_return!({ EVALS.fetch_add(1, SeqCst); 7002u32 }, u32)),
        ("a2", "v1") => inj.when_called_async(injectorpp::async_func!(a2(0), u32))
            .will_return_async(injectorpp::async_return!({ EVALS.fetch_add(1, SeqCst); 7001u32 }, u32)),
        ("a2", _) => inj.when_called_async(injectorpp::async_func!(a2(0), u32))
            .will_return_async(injectorpp::async_return!({ EVALS.fetch_add(1, SeqCst); 7002u32 }, u32)),
        ("a3", "v1") => inj.when_called_async(injectorpp::async_func!(a3(""), String))
            .will_return_async(injectorpp::async_return!({ EVALS.fetch_add(1, SeqCst); String::from("v1") }, String)),
        ("a3", _) => inj.when_called_async(injectorpp::async_func!(a3(""), String))
            .will_return_async(injectorpp::async_return!({ EVALS.fetch_add(1, SeqCst); String::from("v2") }, String)),
        _ => panic!("harness: no such async"),
    }
}

fn await_one(a: &str, arg: u32) -> (String, usize) {
    match a {
        "a1" => {
            let (v, p) = block_on(a1(arg));
            (if v == arg + 1000 { "orig".into() } else if v == 7001 { "v1".into() } else if v == 7002 { "v2".into() } else { format!("?{v}") }, p)
        }
        "a2" => {
            let (v, p) = block_on(a2(arg));
            (if v == arg + 2000 { "orig".into() } else if v == 7001 { "v1".into() } else if v == 7002 { "v2".into() } else { format!("?{v}") }, p)
        }
        _ => {
            let s = format!("x{arg}");
            let (v, p) = block_on(a3(&s));
            (if v == format!("orig-{s}") { "orig".into() } else { v }, p)
        }
    }
}

fn idx(a: &str) -> usize {
    match a {
        "a1" => 0,
        "a2" => 1,
        _ => 2,
    }
}

fn s(v: &Value, k: &str) -> String {
    v.get(k).and_then(|x| x.as_str()).unwrap_or("").to_string()
}

fn run_seq(sc: &Value) {
    panics::install_hook();
    let steps = sc.get("steps").and_then(|x| x.as_array()).cloned().unwrap_or_default();
    let mut inj: Option<InjectorPP> = None;
    let mut argn = 0u32;
    for st in &steps {
        match s(st, "act").as_str() {
            "New" => {
                inj = Some(in_lib(InjectorPP::new));
                if sc.get("unmet_counted").and_then(|x| x.as_bool()).unwrap_or(false) {
                    // the same injector also carries a counted fake that will never be called: its verifier
                    // speaks at the scope exit, which must not disturb the restoration of the async fakes
                    crate::pool::SITE_N[20].store(5, SeqCst);
                    crate::pool::SITE_FAKE[20].store(1, SeqCst);
                    in_lib(|| inj.as_mut().unwrap().when_called(injectorpp::func!(crate::pool::tb3, fn(u32) -> bool)).will_execute(crate::pool::counted_site(20)));
                }
                emit(json!({"ev":"New"}));
            }
            "Fake" => {
                let (a, v) = (s(st, "a"), s(st, "v"));
                let r = std::panic::catch_unwind(std::panic::AssertUnwindSafe(|| in_lib(|| fake(inj.as_mut().unwrap(), &a, &v))));
                emit(json!({"ev":"Fake","a":a,"v":v,"ok":r.is_ok()}));
            }
            "FakeRefused" => {
                // the page of the poll function refuses to become writable for this one request
                let (a, v) = (s(st, "a"), s(st, "v"));
                crate::interpose::set_policy(Some(crate::interpose::Policy { mprotect_fail_at: 1, ..Default::default() }));
                let r = std::panic::catch_unwind(std::panic::AssertUnwindSafe(|| in_lib(|| fake(inj.as_mut().unwrap(), &a, &v))));
                crate::interpose::set_policy(None);
                crate::interpose::set_in_lib(false);
                let cls = r.as_ref().err().map(|p| panics::classify(&panics::payload_str(&**p)).0).unwrap_or("");
                emit(json!({"ev":"FakeRefused","a":a,"v":v,"ok":r.is_ok(),"cls":cls}));
            }
            "Await" => {
                let a = s(st, "a");
                argn += 3;
                let other = st.get("thread").and_then(|x| x.as_bool()).unwrap_or(false);
                let b0 = BODY[idx(&a)].load(SeqCst);
                let e0 = EVALS.load(SeqCst);
                let sib0: Vec<usize> = (0..3).map(|i| BODY[i].load(SeqCst)).collect();
                let (val, polls) = if other {
                    let a2 = a.clone();
                    std::thread::spawn(move || await_one(&a2, argn)).join().unwrap_or(("thread-panicked".into(), 0))
                } else {
                    await_one(&a, argn)
                };
                let sib_touched = (0..3).any(|i| i != idx(&a) && BODY[i].load(SeqCst) != sib0[i]);
                emit(json!({"ev":"Await","a":a,"thread":other,"value":val,"polls":polls,
                    "body":BODY[idx(&a)].load(SeqCst) - b0,"evals":EVALS.load(SeqCst) - e0,"sibling_bodies_ran":sib_touched}));
            }
            "Drop" => {
                let taken = inj.take();
                let r = std::panic::catch_unwind(std::panic::AssertUnwindSafe(move || in_lib(|| drop(taken))));
                crate::interpose::set_in_lib(false);
                emit(json!({"ev":"Drop","live":crate::interpose::owned_live(),"verifier_spoke":r.is_err()}));
            }
            "PanicDrop" => {
                // the scope owning the injector unwinds
                let taken = inj.take();
                let _ = std::panic::catch_unwind(std::panic::AssertUnwindSafe(move || {
                    let _keep = taken;
                    crate::interpose::set_in_lib(true);
                    std::panic::panic_any(panics::UserPanic);
                }));
                crate::interpose::set_in_lib(false);
                emit(json!({"ev":"PanicDrop","live":crate::interpose::owned_live(),"lock":crate::hook::lock_state()}));
            }
            _ => {}
        }
    }
    // every sequence ends the same way: the injector (if still alive) goes away, then every sibling is awaited once
    // more -- the original behaviour must be back, whatever the history
    if inj.is_some() {
        let taken = inj.take();
        let r = std::panic::catch_unwind(std::panic::AssertUnwindSafe(move || in_lib(|| drop(taken))));
        crate::interpose::set_in_lib(false);
        emit(json!({"ev":"Drop","live":crate::interpose::owned_live(),"verifier_spoke":r.is_err(),"implicit":true}));
    }
    for a in ["a1", "a2", "a3"] {
        argn += 3;
        let b0 = BODY[idx(a)].load(SeqCst);
        let e0 = EVALS.load(SeqCst);
        let (val, polls) = await_one(a, argn);
        emit(json!({"ev":"Await","a":a,"thread":false,"value":val,"polls":polls,"body":BODY[idx(a)].load(SeqCst) - b0,
            "evals":EVALS.load(SeqCst) - e0,"sibling_bodies_ran":false,"final":true}));
    }
}

/// other shapes: one fixed script each (await original, fake, await twice, drop, await)
fn run_shapes() {
    panics::install_hook();
    macro_rules! shape {
        ($name:expr, $bidx:expr, $call:expr, $fakeexpr:expr, $isfake:expr, $isorig:expr) => {{
            let b0 = BODY[$bidx].load(SeqCst);
            let (v0, p0) = block_on($call);
            let orig_ok = $isorig(&v0) && BODY[$bidx].load(SeqCst) == b0 + 1;
            let mut inj = in_lib(InjectorPP::new);
            in_lib(|| $fakeexpr(&mut inj));
            let b1 = BODY[$bidx].load(SeqCst);
            let e1 = EVALS.load(SeqCst);
            let (v1, p1) = block_on($call);
            let (v2, p2) = block_on($call);
            let faked_ok = $isfake(&v1) && $isfake(&v2) && p1 == 1 && p2 == 1 && BODY[$bidx].load(SeqCst) == b1 && EVALS.load(SeqCst) == e1 + 2;
            in_lib(|| drop(inj));
            let b2 = BODY[$bidx].load(SeqCst);
            let (v3, _p3) = block_on($call);
            let back_ok = $isorig(&v3) && BODY[$bidx].load(SeqCst) == b2 + 1;
            emit(json!({"ev":"Shape","name":$name,"orig_ok":orig_ok,"faked_ok":faked_ok,"restored_ok":back_ok,"polls":[p0,p1,p2]}));
        }};
    }
    let svc = Svc { k: 5 };
    shape!("method", 3, svc.m(1),
        |inj: &mut InjectorPP| inj.when_called_async(injectorpp::async_func!(svc.m(0), u32)).will_return_async(injectorpp::async_return!({ EVALS.fetch_add(1, SeqCst); 99u32 }, u32)),
        |v: &u32| *v == 99, |v: &u32| *v == 6);
    let flag = AtomicUsize::new(0);
    shape!("unit", 4, unit_fn(&flag),
        |inj: &mut InjectorPP| inj.when_called_async(injectorpp::async_func!(unit_fn(&flag), ())).will_return_async(injectorpp::async_return!({ EVALS.fetch_add(1, SeqCst); }, ())),
        |_v: &()| true, |_v: &()| true);
    shape!("big", 5, big_fn(3),
        |inj: &mut InjectorPP| inj.when_called_async(injectorpp::async_func!(big_fn(0), Big)).will_return_async(injectorpp::async_return!({ EVALS.fetch_add(1, SeqCst); Big { w: [0xABCD; 32] } }, Big)),
        |v: &Big| v.w == [0xABCD; 32], |v: &Big| v.w == [3; 32]);
    let seven = 7u32;
    shape!("byref-bool", 6, bool_fn(&seven),
        |inj: &mut InjectorPP| inj.when_called_async(injectorpp::async_func!(bool_fn(&seven), bool)).will_return_async(injectorpp::async_return!({ EVALS.fetch_add(1, SeqCst); true }, bool)),
        |v: &bool| *v, |v: &bool| !*v);
    // wrong output type is refused before anything is modified (C09, async half)
    let r = std::panic::catch_unwind(|| {
        let mut inj = InjectorPP::new();
        inj.when_called_async(injectorpp::async_func!(a2(0), u32)).will_return_async(injectorpp::async_return!(1u64, u64));
    });
    let msg = r.err().map(|p| panics::payload_str(&*p)).unwrap_or_default();
    let (v, p) = block_on(a2(1));
    emit(json!({"ev":"AsyncMismatch","refused":!msg.is_empty(),"cls":panics::classify(&msg).0,"orig_after":v == 2001 && p == 1}));
}

#[inline(never)]
pub async fn af_u64(x: u64) -> u64 {
    BODY[7].fetch_add(1, SeqCst);
    x + 1
}

pub mod na1 {
    #[derive(Clone, Copy)]
    pub struct Tag(pub u8);
}
pub mod na2 {
    #[derive(Clone, Copy)]
    pub struct Tag(pub u8);
}
#[inline(never)]
pub async fn af_tag1(x: u8) -> na1::Tag {
    BODY[7].fetch_add(1, SeqCst);
    na1::Tag(x)
}
#[inline(never)]
pub async fn af_tag2(x: u8) -> na2::Tag {
    BODY[7].fetch_add(1, SeqCst);
    na2::Tag(x)
}

#[inline(never)]
pub async fn af_opt(x: u32) -> Option<u32> {
    BODY[7].fetch_add(1, SeqCst);
    Some(x)
}
#[inline(never)]
pub async fn af_pair(x: u32) -> (u32, u32) {
    BODY[7].fetch_add(1, SeqCst);
    (x, x)
}

pub type Hm = std::collections::HashMap<String, Vec<u8>>;
pub type LongA = (Hm, Hm, Hm, Hm, u32);
pub type LongB = (Hm, Hm, Hm, Hm, u64);
#[inline(never)]
pub async fn af_long_a(x: u32) -> LongA {
    BODY[7].fetch_add(1, SeqCst);
    (Hm::new(), Hm::new(), Hm::new(), Hm::new(), x)
}
#[inline(never)]
pub async fn af_long_b(x: u64) -> LongB {
    BODY[7].fetch_add(1, SeqCst);
    (Hm::new(), Hm::new(), Hm::new(), Hm::new(), x)
}

/// C09, async half: every ordered pair of output types through async_func! x async_return!
fn run_async_pairs() {
    panics::install_hook();
    let flag = AtomicUsize::new(0);
    let seven = 7u32;
    macro_rules! pair {
        ($t1:expr, $t2:expr, $fut:expr, $ty1:ty, $val:expr, $ty2:ty) => {{
            let os0 = crate::interpose::N_MMAP.load(SeqCst) + crate::interpose::N_MPROTECT.load(SeqCst);
            let r = std::panic::catch_unwind(std::panic::AssertUnwindSafe(|| {
                let mut inj = in_lib(InjectorPP::new);
                in_lib(|| inj.when_called_async(injectorpp::async_func!($fut, $ty1)).will_return_async(injectorpp::async_return!($val, $ty2)));
                in_lib(|| drop(inj));
            }));
            crate::interpose::set_in_lib(false);
            let msg = r.as_ref().err().map(|p| panics::payload_str(&**p)).unwrap_or_default();
            let touched = crate::interpose::N_MMAP.load(SeqCst) + crate::interpose::N_MPROTECT.load(SeqCst) != os0;
            emit(json!({"ev":"AsyncPair","t1":$t1,"t2":$t2,"verdict": if r.is_ok() { "accepted" } else { "refused" },
                "cls":panics::classify(&msg).0,"touched_when_refused": r.is_err() && touched}));
        }};
    }
    macro_rules! row {
        ($t1:expr, $fut:expr, $ty1:ty) => {{
            pair!($t1, "u32", $fut, $ty1, 1u32, u32);
            pair!($t1, "u64", $fut, $ty1, 1u64, u64);
            pair!($t1, "bool", $fut, $ty1, true, bool);
            pair!($t1, "String", $fut, $ty1, String::from("s"), String);
            pair!($t1, "()", $fut, $ty1, (), ());
            // two distinct types with the same name in different modules
            pair!($t1, "na1::Tag", $fut, $ty1, na1::Tag(1), na1::Tag);
            pair!($t1, "na2::Tag", $fut, $ty1, na2::Tag(1), na2::Tag);
            // types whose text CONTAINS the text of another member
            pair!($t1, "Option<u32>", $fut, $ty1, Some(1u32), Option<u32>);
            pair!($t1, "(u32, u32)", $fut, $ty1, (1u32, 2u32), (u32, u32));
            // type names far longer than 160 / 256 characters that differ only in their last component
            pair!($t1, "long..u32", $fut, $ty1, (Hm::new(), Hm::new(), Hm::new(), Hm::new(), 1u32), LongA);
            pair!($t1, "long..u64", $fut, $ty1, (Hm::new(), Hm::new(), Hm::new(), Hm::new(), 1u64), LongB);
        }};
    }
    row!("u32", a2(0), u32);
    row!("u64", af_u64(0), u64);
    row!("bool", bool_fn(&seven), bool);
    row!("String", a3(""), String);
    row!("()", unit_fn(&flag), ());
    row!("na1::Tag", af_tag1(0), na1::Tag);
    row!("na2::Tag", af_tag2(0), na2::Tag);
    row!("Option<u32>", af_opt(0), Option<u32>);
    row!("(u32, u32)", af_pair(0), (u32, u32));
    row!("long..u32", af_long_a(0), LongA);
    row!("long..u64", af_long_b(0), LongB);
}

pub fn run(script: &str, out: &str) {
    crate::events::open(out);
    let text = std::fs::read_to_string(script).expect("script");
    for line in text.lines() {
        if line.trim().is_empty() {
            continue;
        }
        let sc: Value = serde_json::from_str(line).expect("scenario json");
        SCENARIO.store(sc.get("id").and_then(|x| x.as_u64()).unwrap_or(0), SeqCst);
        if s(&sc, "mode") == "asyncpairs" {
            child::run_logged(30, run_async_pairs);
        } else if s(&sc, "mode") == "shapes" {
            child::run_logged(30, run_shapes);
        } else {
            child::run_logged(30, || run_seq(&sc));
        }
    }
}
