//! Synthetic code arenas: machine-code stubs at addresses the scenario chooses.
//! stub = `mov eax, id ; ret` (B8 id32 C3), padded with int3 to a 16-byte pitch.
use crate::interpose::{raw_mmap, raw_mprotect, raw_munmap};

pub struct Arena {
    pub base: u64,
    pub len: usize,
}

impl Arena {
    /// map `pages` pages at exactly `base` (MAP_FIXED_NOREPLACE); None if occupied
    pub fn map(base: u64, pages: usize) -> Option<Arena> {
        let len = pages * 4096;
        let r = unsafe {
            raw_mmap(base, len, libc::PROT_READ | libc::PROT_WRITE,
                libc::MAP_PRIVATE | libc::MAP_ANONYMOUS | libc::MAP_FIXED_NOREPLACE, -1, 0)
        };
        if r != base {
            if (r as i64) > 0 {
                unsafe { raw_munmap(r, len) };
            }
            return None;
        }
        unsafe { std::ptr::write_bytes(base as *mut u8, 0xCC, len) };
        Some(Arena { base, len })
    }

    /// let the kernel choose the place
    pub fn map_anywhere(pages: usize) -> Arena {
        let len = pages * 4096;
        let r = unsafe { raw_mmap(0, len, libc::PROT_READ | libc::PROT_WRITE, libc::MAP_PRIVATE | libc::MAP_ANONYMOUS, -1, 0) };
        assert!((r as i64) > 0);
        unsafe { std::ptr::write_bytes(r as *mut u8, 0xCC, len) };
        Arena { base: r, len }
    }

    pub fn put_stub(&self, off: usize, id: u32) -> u64 {
        assert!(off + 6 <= self.len);
        let p = (self.base as usize + off) as *mut u8;
        unsafe {
            *p = 0xB8;
            std::ptr::copy_nonoverlapping(id.to_le_bytes().as_ptr(), p.add(1), 4);
            *p.add(5) = 0xC3;
        }
        self.base + off as u64
    }

    pub fn put_bytes(&self, off: usize, b: &[u8]) -> u64 {
        assert!(off + b.len() <= self.len);
        unsafe { std::ptr::copy_nonoverlapping(b.as_ptr(), (self.base as usize + off) as *mut u8, b.len()) };
        self.base + off as u64
    }

    /// fill the whole arena with stubs at 16-byte pitch, ids = base_id + index
    pub fn fill(&self, base_id: u32) {
        for i in 0..self.len / 16 {
            self.put_stub(i * 16, base_id + i as u32);
        }
    }

    pub fn seal(&self) {
        let r = unsafe { raw_mprotect(self.base, self.len, libc::PROT_READ | libc::PROT_EXEC) };
        assert_eq!(r, 0);
    }

    pub fn seal_pages(&self, first: usize, n: usize, prot: i32) {
        let r = unsafe { raw_mprotect(self.base + (first * 4096) as u64, n * 4096, prot) };
        assert_eq!(r, 0);
    }

    pub fn unmap(self) {
        unsafe { raw_munmap(self.base, self.len) };
    }
}

/// call a stub: `extern "C" fn() -> u32`
pub fn call_stub(addr: u64) -> u32 {
    let f: extern "C" fn() -> u32 = unsafe { std::mem::transmute(addr as usize) };
    std::hint::black_box(f)()
}
