//! Event sink: one JSON object per line, written with one write(2) per event so that a
//! crash of the process under test loses nothing already observed.
use serde_json::{json, Value};
use std::sync::atomic::{AtomicI32, AtomicU64, Ordering::SeqCst};
use std::sync::Mutex;

static FD: AtomicI32 = AtomicI32::new(-1);
static SEQ: AtomicU64 = AtomicU64::new(0);
static LOCK: Mutex<()> = Mutex::new(());
pub static SCENARIO: AtomicU64 = AtomicU64::new(0);

pub fn open(path: &str) {
    let c = std::ffi::CString::new(path).unwrap();
    let fd = unsafe { libc::open(c.as_ptr(), libc::O_WRONLY | libc::O_CREAT | libc::O_APPEND | libc::O_TRUNC, 0o644) };
    assert!(fd >= 0, "cannot open {path}");
    FD.store(fd, SeqCst);
}

/// address as 8 little-endian bytes (TLC integers are 32-bit)
pub fn a8(x: u64) -> Vec<u8> {
    x.to_le_bytes().to_vec()
}

pub fn next_seq() -> u64 {
    SEQ.fetch_add(1, SeqCst) + 1
}

pub fn emit(mut v: Value) {
    let _g = LOCK.lock().unwrap_or_else(|e| e.into_inner());
    if let Value::Object(m) = &mut v {
        m.insert("seq".into(), json!(next_seq()));
        m.insert("sc".into(), json!(SCENARIO.load(SeqCst)));
        m.entry("t").or_insert_with(|| json!(crate::tid()));
    }
    let mut s = serde_json::to_string(&v).unwrap();
    s.push('\n');
    let fd = FD.load(SeqCst);
    if fd >= 0 {
        let b = s.as_bytes();
        let mut off = 0;
        while off < b.len() {
            let r = unsafe { libc::write(fd, b[off..].as_ptr() as *const _, b.len() - off) };
            if r <= 0 {
                break;
            }
            off += r as usize;
        }
    }
}
