//! Assembly probes (C13 / C10): a caller that loads argument, vector, callee-saved registers
//! and two stack arguments from a buffer, calls the (faked) target, and stores what it finds
//! afterwards; a fake that stores the register file it sees on entry.
use crate::arena::Arena;
use crate::events::{emit, SCENARIO};
use crate::interpose::in_lib;
use crate::{child, panics};
use injectorpp::interface::injector::*;
use serde_json::{json, Value};
use std::sync::atomic::Ordering::SeqCst;

pub const NREG: usize = 32;
// indexes: 0..5 rdi rsi rdx rcx r8 r9 | 6..13 xmm0-7 | 14..19 rbx rbp r12 r13 r14 r15 | 20 rsp
// 21,22 stack args | 23 rax 24 rdx 25 xmm0 (returns) | 26 r10 27 r11 | 28 rsp just before the call
#[no_mangle]
pub static mut PROBE_SEEN: [u64; NREG] = [0; NREG];

pub const MAGIC_RAX: u64 = 0x1111222233334444;
pub const MAGIC_RDX: u64 = 0x5555666677778888;
pub const MAGIC_XMM: u64 = 0x9999AAAABBBBCCCC;
pub const ORIG_RAX: u64 = 0x0A0A0A0A0A0A0A0A;

core::arch::global_asm!(
    ".text",
    ".globl verif_probe_call",
    ".p2align 4",
    "verif_probe_call:",
    "push rbx", "push rbp", "push r12", "push r13", "push r14", "push r15",
    "sub rsp, 40",
    "mov [rsp+16], rdx",
    "mov [rsp+24], rdi",
    "mov rax, rsi",
    "push qword ptr [rax + 176]",
    "push qword ptr [rax + 168]",
    "mov rdi, [rax]", "mov rsi, [rax+8]", "mov rdx, [rax+16]", "mov rcx, [rax+24]", "mov r8, [rax+32]", "mov r9, [rax+40]",
    "movq xmm0, qword ptr [rax+48]", "movq xmm1, qword ptr [rax+56]", "movq xmm2, qword ptr [rax+64]", "movq xmm3, qword ptr [rax+72]",
    "movq xmm4, qword ptr [rax+80]", "movq xmm5, qword ptr [rax+88]", "movq xmm6, qword ptr [rax+96]", "movq xmm7, qword ptr [rax+104]",
    "mov rbx, [rax+112]", "mov rbp, [rax+120]", "mov r12, [rax+128]", "mov r13, [rax+136]", "mov r14, [rax+144]", "mov r15, [rax+152]",
    "mov r10, [rax+208]", "mov r11, [rax+216]",
    "mov rax, [rsp+32]",          // out pointer
    "mov [rax+224], rsp",         // rsp just before the call
    "call qword ptr [rsp+40]",
    "mov r10, [rsp+32]",
    "mov [r10+184], rax", "mov [r10+192], rdx", "movq qword ptr [r10+200], xmm0",
    "mov [r10+112], rbx", "mov [r10+120], rbp", "mov [r10+128], r12", "mov [r10+136], r13", "mov [r10+144], r14", "mov [r10+152], r15",
    "mov [r10+160], rsp",
    "add rsp, 56",
    "pop r15", "pop r14", "pop r13", "pop r12", "pop rbp", "pop rbx",
    "ret",
    "",
    ".globl verif_probe_fake",
    ".p2align 4",
    "verif_probe_fake:",
    "mov [rip + {seen} + 0], rdi", "mov [rip + {seen} + 8], rsi", "mov [rip + {seen} + 16], rdx", "mov [rip + {seen} + 24], rcx",
    "mov [rip + {seen} + 32], r8", "mov [rip + {seen} + 40], r9",
    "movq qword ptr [rip + {seen} + 48], xmm0", "movq qword ptr [rip + {seen} + 56], xmm1", "movq qword ptr [rip + {seen} + 64], xmm2",
    "movq qword ptr [rip + {seen} + 72], xmm3", "movq qword ptr [rip + {seen} + 80], xmm4", "movq qword ptr [rip + {seen} + 88], xmm5",
    "movq qword ptr [rip + {seen} + 96], xmm6", "movq qword ptr [rip + {seen} + 104], xmm7",
    "mov [rip + {seen} + 112], rbx", "mov [rip + {seen} + 120], rbp", "mov [rip + {seen} + 128], r12", "mov [rip + {seen} + 136], r13",
    "mov [rip + {seen} + 144], r14", "mov [rip + {seen} + 152], r15", "mov [rip + {seen} + 160], rsp",
    "mov [rip + {seen} + 208], r10", "mov [rip + {seen} + 216], r11",
    "mov rax, [rsp+8]", "mov [rip + {seen} + 168], rax",
    "mov rax, [rsp+16]", "mov [rip + {seen} + 176], rax",
    "movabs rax, 0x9999AAAABBBBCCCC", "movq xmm0, rax",
    "movabs rdx, 0x5555666677778888",
    "movabs rax, 0x1111222233334444",
    "ret",
    "",
    ".globl verif_probe_target",
    ".p2align 4",
    "verif_probe_target:",
    "movabs rax, 0x0A0A0A0A0A0A0A0A",
    "xor edx, edx",
    "nop", "nop", "nop", "nop", "nop", "nop", "nop", "nop",
    "ret",
    ".p2align 4",
    ".globl verif_probe_target2",
    "verif_probe_target2:",
    "movabs rax, 0x0A0A0A0A0A0A0A0A",
    "xor edx, edx",
    "nop", "nop", "nop", "nop", "nop", "nop", "nop", "nop",
    "ret",
    // targets whose FIRST instruction changes an argument register, the stack pointer or a callee-saved register, under
    // every kind of leading byte (F3 / F2 / 66 prefixes, REX, 0F escapes, push, one-byte opcodes): if any original
    // instruction runs before the fake does, the probe sees it
    ".p2align 4", ".globl verif_probe_t1", "verif_probe_t1:", "mulss xmm0, xmm1", "addss xmm0, xmm2", "nop", "nop", "nop", "nop", "nop", "nop", "nop", "nop", "ret",
    ".p2align 4", ".globl verif_probe_t2", "verif_probe_t2:", "movdqu xmm0, xmm1", "nop", "nop", "nop", "nop", "nop", "nop", "nop", "nop", "nop", "nop", "nop", "nop", "ret",
    ".p2align 4", ".globl verif_probe_t3", "verif_probe_t3:", "popcnt edi, esi", "nop", "nop", "nop", "nop", "nop", "nop", "nop", "nop", "nop", "nop", "nop", "nop", "ret",
    ".p2align 4", ".globl verif_probe_t4", "verif_probe_t4:", "endbr64", "add rdi, 1", "nop", "nop", "nop", "nop", "nop", "nop", "nop", "nop", "nop", "nop", "nop", "nop", "ret",
    ".p2align 4", ".globl verif_probe_t5", "verif_probe_t5:", "addsd xmm1, xmm0", "nop", "nop", "nop", "nop", "nop", "nop", "nop", "nop", "nop", "nop", "nop", "nop", "ret",
    ".p2align 4", ".globl verif_probe_t6", "verif_probe_t6:", "movdqa xmm2, xmm3", "nop", "nop", "nop", "nop", "nop", "nop", "nop", "nop", "nop", "nop", "nop", "nop", "ret",
    ".p2align 4", ".globl verif_probe_t7", "verif_probe_t7:", "push rbp", "mov rbp, rsp", "xor esi, esi", "nop", "nop", "nop", "nop", "nop", "nop", "nop", "nop", "nop", "nop", "pop rbp", "ret",
    ".p2align 4", ".globl verif_probe_t8", "verif_probe_t8:", "lea rdx, [rdx + rcx*2 + 5]", "nop", "nop", "nop", "nop", "nop", "nop", "nop", "nop", "nop", "nop", "nop", "nop", "ret",
    ".p2align 4", ".globl verif_probe_t9", "verif_probe_t9:", "xor ecx, ecx", "mov r8, r9", "nop", "nop", "nop", "nop", "nop", "nop", "nop", "nop", "nop", "nop", "nop", "nop", "ret",
    ".p2align 4", ".globl verif_probe_t10", "verif_probe_t10:", "movaps xmm7, xmm6", "nop", "nop", "nop", "nop", "nop", "nop", "nop", "nop", "nop", "nop", "nop", "nop", "nop", "ret",
    seen = sym PROBE_SEEN,
);

extern "C" {
    fn verif_probe_call(target: usize, inp: *const u64, out: *mut u64);
    fn verif_probe_fake();
    fn verif_probe_target();
    fn verif_probe_target2();
    fn verif_probe_t1();
    fn verif_probe_t2();
    fn verif_probe_t3();
    fn verif_probe_t4();
    fn verif_probe_t5();
    fn verif_probe_t6();
    fn verif_probe_t7();
    fn verif_probe_t8();
    fn verif_probe_t9();
    fn verif_probe_t10();
}

fn hex(v: &[u64]) -> Vec<String> {
    v.iter().map(|x| format!("{:016x}", x)).collect()
}

fn rnd_file(x: &mut u64) -> [u64; NREG] {
    let mut f = [0u64; NREG];
    for v in f.iter_mut() {
        *x ^= *x << 13;
        *x ^= *x >> 7;
        *x ^= *x << 17;
        *v = *x;
    }
    f
}

fn run_probes(sc: &Value) {
    panics::install_hook();
    let n = sc.get("n").and_then(|x| x.as_u64()).unwrap_or(100);
    let form = sc.get("form").and_then(|x| x.as_str()).unwrap_or("near").to_string();
    let mut x = crate::seed_from_env().wrapping_mul(0x9E3779B97F4A7C15) ^ sc.get("id").and_then(|v| v.as_u64()).unwrap_or(1) | 1;
    let tk = sc.get("target").and_then(|x| x.as_u64()).unwrap_or(0);
    let target = if form == "bool" {
        verif_probe_target2 as usize
    } else {
        match tk {
            1 => verif_probe_t1 as usize,
            2 => verif_probe_t2 as usize,
            3 => verif_probe_t3 as usize,
            4 => verif_probe_t4 as usize,
            5 => verif_probe_t5 as usize,
            6 => verif_probe_t6 as usize,
            7 => verif_probe_t7 as usize,
            8 => verif_probe_t8 as usize,
            9 => verif_probe_t9 as usize,
            10 => verif_probe_t10 as usize,
            _ => verif_probe_target as usize,
        }
    };
    // far form: the fake is reached through a hop placed > 2 GiB away from the trampoline,
    // so the trampoline uses its long (absolute) form. The hop uses r11 (free scratch).
    let mut hop = None;
    let fake_addr: usize = if form == "far" {
        let a = Arena::map(0x300000000, 1).or_else(|| Arena::map(0x310000000, 1)).expect("hop arena");
        let mut code = vec![0x49, 0xBB];
        code.extend_from_slice(&(verif_probe_fake as usize as u64).to_le_bytes());
        code.extend_from_slice(&[0x41, 0xFF, 0xE3]);
        let at = a.put_bytes(64, &code);
        a.seal();
        hop = Some(a);
        at as usize
    } else {
        verif_probe_fake as usize
    };
    let mut inj = in_lib(InjectorPP::new);
    let boolv = sc.get("v").and_then(|x| x.as_bool()).unwrap_or(true);
    in_lib(|| unsafe {
        if form == "bool" {
            inj.when_called(FuncPtr::new(target as *const (), "extern \"C\" fn() -> bool")).will_return_boolean(boolv);
        } else {
            inj.when_called(FuncPtr::new(target as *const (), "probe")).will_execute_raw(FuncPtr::new(fake_addr as *const (), "probe"));
        }
    });
    let entry = unsafe { std::slice::from_raw_parts(target as *const u8, 12) }.to_vec();
    emit(json!({"ev":"ProbeSetup","form":form,"entry":entry,"v":boolv,"target":tk}));
    for k in 0..n {
        let inp = rnd_file(&mut x);
        let mut out = [0u64; NREG];
        unsafe {
            PROBE_SEEN = [0; NREG];
            verif_probe_call(target, inp.as_ptr(), out.as_mut_ptr());
        }
        let seen = unsafe { PROBE_SEEN };
        // relations that need arithmetic are computed here as booleans over the raw values; the
        // values themselves go to TLC as opaque strings (TLC integers are 32-bit)
        emit(json!({"ev":"RegProbe","form":form,"k":k,"v":boolv,"in":hex(&inp),"seen":hex(&seen),"after":hex(&out),
            "rsp_at_fake_ok": seen[20] == out[28].wrapping_sub(8),
            "rsp_after_ok": out[20] == out[28],
            "al": out[23] & 0xff}));
    }
    in_lib(|| drop(inj));
    let mut out = [0u64; NREG];
    let inp = rnd_file(&mut x);
    unsafe { verif_probe_call(target, inp.as_ptr(), out.as_mut_ptr()) };
    emit(json!({"ev":"ProbeEnd","orig_back": tk != 0 || out[23] == ORIG_RAX}));
    drop(hop);
}

// ------------------------------------------------------------------ Rust-level shapes
#[derive(Clone, Copy, PartialEq, Debug)]
#[repr(C)]
pub struct Wide {
    pub a: [u64; 25],
}
#[inline(never)]
pub fn many_args(a: u64, b: f64, c: u32, d: f32, e: i64, f: f64, g: u8, h: u64, i: f64, j: i32, k: u64, l: f64, m: u16, n: u64) -> u64 {
    std::hint::black_box((a, b, c, d, e, f, g, h, i, j, k, l, m, n));
    1
}
#[inline(never)]
pub fn many_args_fake(a: u64, b: f64, c: u32, d: f32, e: i64, f: f64, g: u8, h: u64, i: f64, j: i32, k: u64, l: f64, m: u16, n: u64) -> u64 {
    let mut s = a ^ (b.to_bits()) ^ (c as u64) ^ (d.to_bits() as u64) ^ (e as u64) ^ f.to_bits() ^ (g as u64) ^ h ^ i.to_bits() ^ (j as u32 as u64) ^ k ^ l.to_bits() ^ (m as u64) ^ n;
    s = s.rotate_left(7) ^ 0x5a5a;
    s
}
#[inline(never)]
pub fn wide_ret(seed: u64, k: u64) -> Wide {
    std::hint::black_box((seed, k));
    Wide { a: [0; 25] }
}
#[inline(never)]
pub fn wide_ret_fake(seed: u64, k: u64) -> Wide {
    let mut w = Wide { a: [0; 25] };
    for (i, v) in w.a.iter_mut().enumerate() {
        *v = seed.wrapping_mul(i as u64 + 1) ^ k;
    }
    w
}
#[inline(never)]
pub fn pair_ret(x: u64, y: u64) -> (u64, u64) {
    std::hint::black_box((x, y));
    (0, 0)
}
#[inline(never)]
pub fn pair_ret_fake(x: u64, y: u64) -> (u64, u64) {
    (y.wrapping_add(1), x.wrapping_sub(1))
}

// a by-value aggregate larger than 16 bytes through the C ABI (copied onto the stack by the caller)
#[derive(Clone, Copy, PartialEq, Debug)]
#[repr(C)]
pub struct Triple {
    pub a: u64,
    pub b: u64,
    pub c: u64,
}
fn mix3(t: Triple, k: u64) -> u64 {
    t.a ^ t.b.rotate_left(7) ^ t.c.rotate_left(13) ^ k.rotate_left(29)
}
#[inline(never)]
pub extern "C" fn agg_c(t: Triple, k: u64) -> u64 {
    std::hint::black_box((t, k));
    1
}
#[inline(never)]
pub extern "C" fn agg_c_fake(t: Triple, k: u64) -> u64 {
    mix3(t, k)
}

fn run_shapes(sc: &Value) {
    panics::install_hook();
    let n = sc.get("n").and_then(|x| x.as_u64()).unwrap_or(100);
    let mut x = crate::seed_from_env().wrapping_mul(0x2545F4914F6CDD1D) | 1;
    let mut next = || {
        x ^= x << 13;
        x ^= x >> 7;
        x ^= x << 17;
        x
    };
    let mut inj = in_lib(InjectorPP::new);
    in_lib(|| {
        inj.when_called(injectorpp::func!(many_args, fn(u64, f64, u32, f32, i64, f64, u8, u64, f64, i32, u64, f64, u16, u64) -> u64))
            .will_execute_raw(injectorpp::func!(many_args_fake, fn(u64, f64, u32, f32, i64, f64, u8, u64, f64, i32, u64, f64, u16, u64) -> u64));
        inj.when_called(injectorpp::func!(wide_ret, fn(u64, u64) -> Wide)).will_execute_raw(injectorpp::func!(wide_ret_fake, fn(u64, u64) -> Wide));
        inj.when_called(injectorpp::func!(pair_ret, fn(u64, u64) -> (u64, u64))).will_execute_raw(injectorpp::func!(pair_ret_fake, fn(u64, u64) -> (u64, u64)));
        inj.when_called(injectorpp::func!(agg_c, extern "C" fn(Triple, u64) -> u64)).will_execute_raw(injectorpp::func!(agg_c_fake, extern "C" fn(Triple, u64) -> u64));
    });
    let (mut ok_many, mut ok_wide, mut ok_pair) = (0u64, 0u64, 0u64);
    let mut ok_agg = 0u64;
    for _ in 0..n {
        let (a, b, c, d, e, f, g, h, i, j, k, l, m, nn) = (next(), f64::from_bits(next() >> 2), next() as u32, f32::from_bits((next() >> 34) as u32), next() as i64,
            f64::from_bits(next() >> 2), next() as u8, next(), f64::from_bits(next() >> 2), next() as i32, next(), f64::from_bits(next() >> 2), next() as u16, next());
        let got = std::hint::black_box(many_args as fn(u64, f64, u32, f32, i64, f64, u8, u64, f64, i32, u64, f64, u16, u64) -> u64)(a, b, c, d, e, f, g, h, i, j, k, l, m, nn);
        // the reference value is computed by calling the fake directly
        if got == many_args_fake(a, b, c, d, e, f, g, h, i, j, k, l, m, nn) {
            ok_many += 1;
        }
        let (s1, s2) = (next(), next());
        if std::hint::black_box(wide_ret as fn(u64, u64) -> Wide)(s1, s2) == wide_ret_fake(s1, s2) {
            ok_wide += 1;
        }
        if std::hint::black_box(pair_ret as fn(u64, u64) -> (u64, u64))(s1, s2) == pair_ret_fake(s1, s2) {
            ok_pair += 1;
        }
        let t = Triple { a: next(), b: next(), c: next() };
        if std::hint::black_box(agg_c as extern "C" fn(Triple, u64) -> u64)(t, s1) == mix3(t, s1) {
            ok_agg += 1;
        }
    }
    in_lib(|| drop(inj));
    // a replacement of the other ABI for the same function: whether the library admits the pairing is the gate's business
    // (C09); IF it does, the replacement must still receive what the caller supplied
    let decoy = Triple { a: 11, b: 22, c: 33 };
    let cross = match std::panic::catch_unwind(std::panic::AssertUnwindSafe(|| {
        let mut inj2 = in_lib(InjectorPP::new);
        in_lib(|| {
            inj2.when_called(injectorpp::func!(agg_c, extern "C" fn(Triple, u64) -> u64))
                .will_execute_raw(injectorpp::closure!(|t: Triple, k: u64| -> u64 { mix3(t, k) }, fn(Triple, u64) -> u64))
        });
        let t = Triple { a: 1, b: 2, c: 3 };
        // k is the address of readable memory, so that a replacement looking for its aggregate behind the wrong register reads a decoy
        let k = &decoy as *const Triple as u64;
        let got = std::hint::black_box(agg_c as extern "C" fn(Triple, u64) -> u64)(t, k);
        in_lib(|| drop(inj2));
        got == mix3(t, k)
    })) {
        Err(_) => "refused",
        Ok(true) => "intact",
        Ok(false) => "garbled",
    };
    emit(json!({"ev":"Shapes","n":n,"many_args_ok":ok_many,"wide_ret_ok":ok_wide,"pair_ret_ok":ok_pair,"agg_c_ok":ok_agg,"cross_abi":cross}));
}

pub fn run(script: &str, out: &str) {
    crate::events::open(out);
    let text = std::fs::read_to_string(script).expect("script");
    for line in text.lines() {
        if line.trim().is_empty() {
            continue;
        }
        let sc: Value = serde_json::from_str(line).expect("scenario json");
        SCENARIO.store(sc.get("id").and_then(|x| x.as_u64()).unwrap_or(0), SeqCst);
        if sc.get("mode").and_then(|x| x.as_str()) == Some("shapes") {
            child::run_logged(60, || run_shapes(&sc));
        } else {
            child::run_logged(60, || run_probes(&sc));
        }
    }
}
