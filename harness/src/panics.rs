//! Panic accounting: a silent hook that counts panics and keeps the last message.
use std::sync::atomic::{AtomicUsize, Ordering::SeqCst};
use std::sync::Mutex;

pub static COUNT: AtomicUsize = AtomicUsize::new(0);
pub static LAST: Mutex<String> = Mutex::new(String::new());
/// state of the process-wide guard at the moment the call-count verifier raised its panic (-1 = never)
pub static LOCK_AT_VERIFY: std::sync::atomic::AtomicI64 = std::sync::atomic::AtomicI64::new(-1);

pub struct UserPanic;

pub fn install_hook() {
    std::panic::set_hook(Box::new(|info| {
        COUNT.fetch_add(1, SeqCst);
        let msg = payload_str(info.payload());
        if std::env::var("VERIF_LOUD").is_ok() {
            eprintln!("PANIC: {} at {:?}", msg, info.location());
        }
        if classify(&msg).0 == "count" {
            LOCK_AT_VERIFY.store(injectorpp::interface::injector::__verif_lock_state() as i64, SeqCst);
        }
        if let Ok(mut l) = LAST.lock() {
            *l = msg;
        }
    }));
}

pub fn payload_str(p: &(dyn std::any::Any + Send)) -> String {
    if let Some(s) = p.downcast_ref::<&str>() {
        s.to_string()
    } else if let Some(s) = p.downcast_ref::<String>() {
        s.clone()
    } else if p.downcast_ref::<UserPanic>().is_some() {
        "<user>".to_string()
    } else {
        "<opaque>".to_string()
    }
}

/// fixed substring rules (DESIGN.md appendix A)
pub fn classify(msg: &str) -> (&'static str, i64, i64) {
    // case-insensitive, tolerant of rewording: what matters is which KIND of refusal / failure it is
    let m = msg.to_lowercase();
    let nums = || -> Vec<i64> {
        m.split(|c: char| !c.is_ascii_digit()).filter(|s| !s.is_empty()).filter_map(|s| s.parse().ok()).collect()
    };
    if m.contains("will_return_boolean") || (m.contains("bool") && (m.contains("requires") || m.contains("returning"))) {
        ("bool-gate", 0, 0)
    } else if m.contains("signature") && (m.contains("mismatch") || m.contains("differ") || m.contains("does not match")) {
        ("sig-mismatch", 0, 0)
    } else if m.contains("null") {
        ("null", 0, 0)
    } else if m.contains("more times than expected") || m.contains("too many times") {
        ("over-called", 0, 0)
    } else if m.contains("unexpected argument") {
        ("unexpected-args", 0, 0)
    } else if m.contains("expected to be called") || (m.contains("expected") && m.contains("time") && nums().len() >= 2) {
        // "... expected to be called {expected} time(s), but it is actually called {k} time(s)"
        let n = nums();
        ("count", *n.first().unwrap_or(&-1), *n.get(1).unwrap_or(&-1))
    } else if m.contains("allocate") {
        ("alloc-exhausted", 0, 0)
    } else if m.contains("mprotect") || m.contains("virtualprotect") {
        ("mprotect", 0, 0)
    } else if m.contains("branch range") {
        ("branch-range", 0, 0)
    } else if msg == "<user>" {
        ("user", 0, 0)
    } else {
        ("other", 0, 0)
    }
}
