//! Panic accounting: a silent hook that counts panics and keeps the last message.
use std::sync::atomic::{AtomicUsize, Ordering::SeqCst};
use std::sync::Mutex;

include!("panics_common.rs");

pub static COUNT: AtomicUsize = AtomicUsize::new(0);
pub static LAST: Mutex<String> = Mutex::new(String::new());
/// state of the process-wide guard at the moment the call-count verifier raised its panic (-1 = never)
pub static LOCK_AT_VERIFY: std::sync::atomic::AtomicI64 = std::sync::atomic::AtomicI64::new(-1);

pub fn install_hook() {
    std::panic::set_hook(Box::new(|info| {
        COUNT.fetch_add(1, SeqCst);
        let msg = payload_str(info.payload());
        if std::env::var("VERIF_LOUD").is_ok() {
            eprintln!("PANIC: {} at {:?}", msg, info.location());
        }
        if classify(&msg).0 == "count" {
            LOCK_AT_VERIFY.store(crate::hook::lock_state() as i64, SeqCst);
        }
        if let Ok(mut l) = LAST.lock() {
            *l = msg;
        }
    }));
}

