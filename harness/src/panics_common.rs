// Panic payloads and their classification (shared by the native harness and the simulated one).
pub struct UserPanic;

pub fn payload_str(p: &(dyn std::any::Any + Send)) -> String {
    if let Some(s) = p.downcast_ref::<&str>() {
        s.to_string()
    } else if let Some(s) = p.downcast_ref::<String>() {
        s.clone()
    } else if p.downcast_ref::<UserPanic>().is_some() {
        "<user>".to_string()
    } else {
        "<opaque>".to_string()
    }
}

/// fixed substring rules (DESIGN.md appendix A)
pub fn classify(msg: &str) -> (&'static str, i64, i64) {
    // case-insensitive, tolerant of rewording: what matters is which KIND of refusal / failure it is
    let m = msg.to_lowercase();
    let nums = || -> Vec<i64> {
        m.split(|c: char| !c.is_ascii_digit()).filter(|s| !s.is_empty()).filter_map(|s| s.parse().ok()).collect()
    };
    if m.contains("will_return_boolean") || (m.contains("bool") && (m.contains("requires") || m.contains("returning"))) {
        ("bool-gate", 0, 0)
    } else if m.contains("signature") && (m.contains("mismatch") || m.contains("differ") || m.contains("does not match")) {
        ("sig-mismatch", 0, 0)
    } else if m.contains("null") {
        ("null", 0, 0)
    } else if m.contains("more times than expected") || m.contains("too many times") {
        ("over-called", 0, 0)
    } else if m.contains("unexpected argument") {
        ("unexpected-args", 0, 0)
    } else if m.contains("expected to be called") || (m.contains("expected") && m.contains("time") && nums().len() >= 2) {
        // "... expected to be called {expected} time(s), but it is actually called {k} time(s)"
        let n = nums();
        ("count", *n.first().unwrap_or(&-1), *n.get(1).unwrap_or(&-1))
    } else if m.contains("allocate") {
        ("alloc-exhausted", 0, 0)
    } else if m.contains("mprotect") || m.contains("virtualprotect") {
        ("mprotect", 0, 0)
    } else if m.contains("branch range") {
        ("branch-range", 0, 0)
    } else if msg == "<user>" {
        ("user", 0, 0)
    } else {
        ("other", 0, 0)
    }
}
