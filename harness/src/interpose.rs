//! OS-call interposition: the harness executable defines `mmap`, `munmap`, `mprotect` and
//! `__clear_cache`; the library's calls resolve here at link time (no change to /repo).
//! Each call made while the calling thread is inside a library API (`IN_LIB`) is
//! (a) preceded by a diff of watched memory (-> `Write` events),
//! (b) subject to the active scenario's policy (fail / ignore hint / free-set),
//! (c) logged with arguments and result.
use crate::events::{a8, emit};
use crate::watch;
use crate::hook::lock_state;
use libc::{c_char, c_int, c_void, off_t, size_t};
use serde_json::json;
use std::cell::Cell;
use std::collections::BTreeSet;
use std::sync::atomic::{AtomicBool, AtomicI64, AtomicU64, AtomicUsize, Ordering::SeqCst};
use std::sync::Mutex;

thread_local! {
    pub static IN_LIB: Cell<bool> = const { Cell::new(false) };
    static BUSY: Cell<bool> = const { Cell::new(false) };
}

/// Run `f` as "library code": OS calls made by this thread inside are recorded.
pub fn in_lib<R>(f: impl FnOnce() -> R) -> R {
    struct Reset(bool);
    impl Drop for Reset {
        fn drop(&mut self) {
            IN_LIB.with(|c| c.set(self.0));
        }
    }
    let prev = IN_LIB.with(|c| c.replace(true));
    let _r = Reset(prev);
    f()
}

pub fn set_in_lib(v: bool) -> bool {
    IN_LIB.with(|c| c.replace(v))
}

fn active() -> bool {
    IN_LIB.with(|c| c.get()) && !BUSY.with(|c| c.get())
}

struct Busy;
impl Busy {
    fn new() -> Busy {
        BUSY.with(|c| c.set(true));
        Busy
    }
}
impl Drop for Busy {
    fn drop(&mut self) {
        BUSY.with(|c| c.set(false));
    }
}

// ------------------------------------------------------------------ policy

#[derive(Clone, Debug, Default)]
pub struct Policy {
    /// if set: a hinted library mmap succeeds at its hint iff the hint page is in `free`
    pub free: Option<BTreeSet<u64>>,
    /// what an "occupied" hint gets: 0 = fail, 1 = a far address chosen by the kernel,
    /// 2 = `elsewhere` (an explicit address), 3 = pass the hint to the kernel unchanged, 4 = the lowest mappable page of `free`
    pub occupied: u8,
    pub elsewhere: u64,
    /// how many occupied hints get the `occupied` answer before the policy falls back to
    /// plain failure (0 = unlimited); keeps exhaustion runs short
    pub occ_budget: usize,
    /// library mmap number k (1-based) and later fail (0 = never)
    pub mmap_fail_from: usize,
    /// library mprotect number k (1-based) fails (0 = never)
    pub mprotect_fail_at: usize,
    /// library munmap number k (1-based, counted from the moment the policy is installed) fails with ENOMEM
    pub munmap_fail_at: usize,
}

pub static POLICY: Mutex<Option<Policy>> = Mutex::new(None);
pub static N_MMAP: AtomicUsize = AtomicUsize::new(0);
pub static OCC_USED: AtomicUsize = AtomicUsize::new(0);
pub static N_MUNMAP_POL: AtomicUsize = AtomicUsize::new(0);
/// successful library mmaps / munmaps of owned mappings / munmaps reaching foreign memory (cycle accounting)
pub static N_MMAP_OK: AtomicUsize = AtomicUsize::new(0);
pub static N_MUNMAP_OK: AtomicUsize = AtomicUsize::new(0);
pub static N_FOREIGN: AtomicUsize = AtomicUsize::new(0);
/// when set, OS-level events are counted but not logged one by one (long cycle runs)
pub static QUIET_ALL: AtomicBool = AtomicBool::new(false);
pub static N_MUNMAP: AtomicUsize = AtomicUsize::new(0);
pub static N_MPROTECT: AtomicUsize = AtomicUsize::new(0);
pub static N_MPROTECT_W: AtomicUsize = AtomicUsize::new(0);
pub static N_FLUSH: AtomicUsize = AtomicUsize::new(0);
/// when set, successful/failed mmap attempts that the policy refused are not logged one
/// by one (65 537-attempt exhaustion) but counted
pub static QUIET_FAILS: AtomicBool = AtomicBool::new(false);
pub static QUIET_COUNT: AtomicU64 = AtomicU64::new(0);
/// perturbation: sleep up to this many microseconds inside each interposed call
pub static PERTURB_US: AtomicU64 = AtomicU64::new(0);
static PRNG: AtomicU64 = AtomicU64::new(0x9E3779B97F4A7C15);
/// every mapping created by a library mmap and still mapped: addr -> len
pub static OWNED: Mutex<Vec<(u64, u64)>> = Mutex::new(Vec::new());
/// mappings made by "somebody else" (the driver, standing in for the rest of the process) at addresses the library
/// used to own: the library must neither map over them, write into them nor unmap them
pub static FOREIGN: Mutex<Vec<(u64, u64)>> = Mutex::new(Vec::new());
pub static LAST_ERRNO: AtomicI64 = AtomicI64::new(0);

pub fn set_policy(p: Option<Policy>) {
    let some = p.is_some();
    *POLICY.lock().unwrap() = p;
    if some {
        // policies count library calls from the moment they are installed
        N_MMAP.store(0, SeqCst);
        N_MPROTECT.store(0, SeqCst);
        N_MPROTECT_W.store(0, SeqCst);
        OCC_USED.store(0, SeqCst);
        N_MUNMAP_POL.store(0, SeqCst);
    }
}

pub fn seed(s: u64) {
    PRNG.store(s.wrapping_mul(0x9E3779B97F4A7C15) | 1, SeqCst);
}

pub fn rnd() -> u64 {
    // xorshift64*, racy on purpose (only perturbation quality depends on it)
    let mut x = PRNG.load(SeqCst);
    x ^= x >> 12;
    x ^= x << 25;
    x ^= x >> 27;
    PRNG.store(x, SeqCst);
    x.wrapping_mul(0x2545F4914F6CDD1D)
}

fn perturb() {
    let m = PERTURB_US.load(SeqCst);
    if m > 0 {
        let r = rnd() % (m + 1);
        if r % 3 == 0 {
            std::thread::yield_now();
        } else {
            std::thread::sleep(std::time::Duration::from_micros(r));
        }
    }
}

pub unsafe fn raw_mmap(addr: u64, len: usize, prot: c_int, flags: c_int, fd: c_int, off: off_t) -> u64 {
    libc::syscall(libc::SYS_mmap, addr, len, prot, flags, fd, off) as u64
}
pub unsafe fn raw_munmap(addr: u64, len: usize) -> c_int {
    libc::syscall(libc::SYS_munmap, addr, len) as c_int
}
pub unsafe fn raw_mprotect(addr: u64, len: usize, prot: c_int) -> c_int {
    libc::syscall(libc::SYS_mprotect, addr, len, prot) as c_int
}

fn is_err(r: u64) -> bool {
    (r as i64) < 0 && (r as i64) >= -4095
}

fn set_errno(e: i32) {
    unsafe {
        *libc::__errno_location() = e;
    }
}

#[no_mangle]
pub unsafe extern "C" fn mmap(addr: *mut c_void, len: size_t, prot: c_int, flags: c_int, fd: c_int, off: off_t) -> *mut c_void {
    if !active() {
        let r = raw_mmap(addr as u64, len, prot, flags, fd, off);
        if is_err(r) {
            set_errno(-(r as i64) as i32);
            return libc::MAP_FAILED;
        }
        return r as *mut c_void;
    }
    let _b = Busy::new();
    perturb();
    watch::diff_all("mmap");
    let n = N_MMAP.fetch_add(1, SeqCst) + 1;
    let hint = addr as u64;
    let pol = POLICY.lock().unwrap().clone();
    let mut how = "kernel";
    let r: u64 = match &pol {
        Some(p) if p.mmap_fail_from != 0 && n >= p.mmap_fail_from => {
            how = "fail";
            (-(libc::ENOMEM as i64)) as u64
        }
        Some(p) if p.free.is_some() => {
            let free = p.free.as_ref().unwrap();
            if (hint & !0xfff) != 0 && free.contains(&(hint & !0xfff)) {
                how = "free";
                raw_mmap(hint & !0xfff, len, prot, flags | libc::MAP_FIXED_NOREPLACE, fd, off)
            } else {
                let over = p.occ_budget != 0 && OCC_USED.fetch_add(1, SeqCst) >= p.occ_budget;
                // page 0 is never handed out by a kernel
                let mode = if over || (p.occupied == 2 && p.elsewhere < 4096) { 0 } else { p.occupied };
                match mode {
                    0 => {
                        how = "occ-fail";
                        (-(libc::ENOMEM as i64)) as u64
                    }
                    1 => {
                        how = "occ-far";
                        raw_mmap(0, len, prot, flags, fd, off)
                    }
                    2 => {
                        how = "occ-else";
                        raw_mmap(p.elsewhere, len, prot, flags | libc::MAP_FIXED_NOREPLACE, fd, off)
                    }
                    // the kernel does not honour the hint and answers with another address -- here: the lowest page of `free`
                    // that can still be mapped (a placement DICTATED by the driver is reached whatever pages the allocator asks for)
                    4 => {
                        how = "occ-free";
                        let mut r = (-(libc::ENOMEM as i64)) as u64;
                        for pg in free.iter() {
                            let q = raw_mmap(*pg, len, prot, flags | libc::MAP_FIXED_NOREPLACE, fd, off);
                            if !is_err(q) {
                                r = q;
                                break;
                            }
                        }
                        r
                    }
                    _ => raw_mmap(hint, len, prot, flags, fd, off),
                }
            }
        }
        _ => raw_mmap(hint, len, prot, flags, fd, off),
    };
    let failed = is_err(r);
    // memory somebody else mapped (registered by the driver) that this request landed on top of: only MAP_FIXED does that
    let clobbers = !failed && FOREIGN.lock().unwrap().iter().any(|&(b, l)| r < b + l && b < r + ((len as u64 + 0xfff) & !0xfff));
    if clobbers {
        N_FOREIGN.fetch_add(1, SeqCst);
    }
    if !failed {
        OWNED.lock().unwrap().push((r, len as u64));
        watch::add_tramp(r, len);
        N_MMAP_OK.fetch_add(1, SeqCst);
    }
    if QUIET_ALL.load(SeqCst) {
        if failed {
            set_errno(-(r as i64) as i32);
            return libc::MAP_FAILED;
        }
        return r as *mut c_void;
    }
    if QUIET_FAILS.load(SeqCst) && (failed || how == "occ-far" || how == "occ-else") {
        QUIET_COUNT.fetch_add(1, SeqCst);
        if !failed {
            // still logged compactly: a rejected placement must be seen being unmapped
            emit(json!({"ev":"Mmap","hint":a8(hint),"len":len,"prot":prot,"ret":a8(r),"ok":true,"how":how,"n":n,"name":format!("m{:x}", r),"lock":lock_state(),
                "clobbers_foreign":clobbers,"fixed":(flags & libc::MAP_FIXED) != 0}));
        }
    } else {
        emit(json!({"ev":"Mmap","hint":a8(hint),"len":len,"prot":prot,
            "ret": if failed { json!("fail") } else { json!(a8(r)) }, "ok": !failed, "how":how,"n":n,
            "name": if failed { String::new() } else { format!("m{:x}", r) }, "lock": lock_state(),
            "clobbers_foreign":clobbers,"fixed":(flags & libc::MAP_FIXED) != 0}));
    }
    if failed {
        set_errno(-(r as i64) as i32);
        return libc::MAP_FAILED;
    }
    r as *mut c_void
}

#[no_mangle]
pub unsafe extern "C" fn munmap(addr: *mut c_void, len: size_t) -> c_int {
    if !active() {
        let r = raw_munmap(addr as u64, len);
        if r < 0 {
            set_errno(-r);
            return -1;
        }
        return r;
    }
    let _b = Busy::new();
    perturb();
    watch::diff_all("munmap");
    N_MUNMAP.fetch_add(1, SeqCst);
    let a = addr as u64;
    {
        let pol = POLICY.lock().unwrap().clone();
        if let Some(p) = &pol {
            if p.munmap_fail_at != 0 && N_MUNMAP_POL.fetch_add(1, SeqCst) + 1 == p.munmap_fail_at {
                emit(json!({"ev":"Munmap","addr":a8(a),"len":len,"ret":-12,"owned":true,"foreign":false,
                    "name":format!("m{:x}", a),"lock":lock_state(),"injected_failure":true}));
                set_errno(libc::ENOMEM);
                return -1;
            }
        }
    }
    let owned_exact;
    let overlaps_foreign;
    {
        let mut o = OWNED.lock().unwrap();
        let idx = o.iter().position(|&(b, l)| b == a && ((l + 0xfff) & !0xfff) == ((len as u64 + 0xfff) & !0xfff));
        owned_exact = idx.is_some();
        // anything in [a, a+len) that is not inside one owned mapping is foreign
        let end = a + ((len as u64 + 0xfff) & !0xfff);
        overlaps_foreign = !o.iter().any(|&(b, l)| a >= b && end <= b + ((l + 0xfff) & !0xfff));
        if let Some(i) = idx {
            o.remove(i);
        }
    }
    watch::remove_tramp(a);
    // a munmap that reaches outside owned mappings is logged and NOT performed (it would
    // take the harness down with it); the trace records that it was attempted.
    let r = if overlaps_foreign { 0 } else { raw_munmap(a, len) };
    if overlaps_foreign {
        N_FOREIGN.fetch_add(1, SeqCst);
    } else if owned_exact && r == 0 {
        N_MUNMAP_OK.fetch_add(1, SeqCst);
    }
    if QUIET_ALL.load(SeqCst) {
        return r;
    }
    emit(json!({"ev":"Munmap","addr":a8(a),"len":len,"ret":r,"owned":owned_exact,"foreign":overlaps_foreign,"name":format!("m{:x}", a),"lock":lock_state()}));
    if r < 0 {
        set_errno(-r);
        return -1;
    }
    r
}

pub static DENY_PAGE: std::sync::atomic::AtomicU64 = std::sync::atomic::AtomicU64::new(0);

#[no_mangle]
pub unsafe extern "C" fn mprotect(addr: *mut c_void, len: size_t, prot: c_int) -> c_int {
    if !active() {
        let r = raw_mprotect(addr as u64, len, prot);
        if r < 0 {
            set_errno(-r);
            return -1;
        }
        return r;
    }
    if QUIET_ALL.load(SeqCst) {
        let r = raw_mprotect(addr as u64, len, prot);
        if r < 0 {
            set_errno(-r);
            return -1;
        }
        return r;
    }
    let _b = Busy::new();
    perturb();
    watch::diff_all("mprotect");
    let n = N_MPROTECT.fetch_add(1, SeqCst) + 1;
    let pol = POLICY.lock().unwrap().clone();
    // the injected refusal models a TARGET page the system will not make writable: requests that concern the library's own
    // trampolines (W^X hygiene after writing them), or that ask for no write access, are not counted and never refused
    let own = {
        let pg = (addr as u64) & !0xfff;
        OWNED.lock().unwrap().iter().any(|(b, l)| pg < ((*b + *l + 0xfff) & !0xfff) && pg + 4096 > (*b & !0xfff))
    };
    let counts = (prot & libc::PROT_WRITE) != 0 && !own;
    let nw = if counts { N_MPROTECT_W.fetch_add(1, SeqCst) + 1 } else { 0 };
    // a page that never becomes writable (a sealed / file-backed read-only mapping): every request fails
    let dp = DENY_PAGE.load(SeqCst);
    let denied = dp != 0 && (prot & libc::PROT_WRITE) != 0 && (addr as u64) < dp + 4096 && (addr as u64 + len as u64) > dp;
    let r = match &pol {
        _ if denied => -libc::EACCES,
        Some(p) if p.mprotect_fail_at != 0 && counts && nw == p.mprotect_fail_at => -libc::EACCES,
        _ => raw_mprotect(addr as u64, len, prot),
    };
    emit(json!({"ev":"Mprotect","addr":a8(addr as u64),"len":len,"prot":prot,"ret":r,"n":n,
        "writable": (prot & libc::PROT_WRITE) != 0, "covers": watch::page_covers(addr as u64, len), "lock": lock_state()}));
    if r < 0 {
        set_errno(-r);
        return -1;
    }
    r
}

#[no_mangle]
pub unsafe extern "C" fn __clear_cache(start: *mut c_char, end: *mut c_char) {
    if !active() {
        return;
    }
    if QUIET_ALL.load(SeqCst) {
        flush_hook(start as u64, end as u64);
        return;
    }
    let _b = Busy::new();
    perturb();
    watch::diff_all("flush");
    N_FLUSH.fetch_add(1, SeqCst);
    let s = start as u64;
    let e = end as u64;
    // copy of the range at call time, only if it is readable (watched or owned)
    let len = e.saturating_sub(s) as usize;
    let content: Vec<u8> = if len <= 64 && watch::readable(s, len) {
        std::slice::from_raw_parts(s as *const u8, len).to_vec()
    } else {
        Vec::new()
    };
    emit(json!({"ev":"Flush","start":a8(s),"end":a8(e),"len":len,"content":content,"mapped":watch::readable(s,len),
        "covers": watch::covers(s, e), "lock": lock_state()}));
    flush_hook(s, e);
}

/// a driver may ask to be told about every flush the library requests (the earliest moment at which freshly written code
/// may be executed by anybody): used to let ANOTHER thread call a function the instant its entry has been flushed
pub static FLUSH_HOOK: Mutex<Option<Box<dyn Fn(u64, u64) + Send>>> = Mutex::new(None);
fn flush_hook(s: u64, e: u64) {
    let g = FLUSH_HOOK.lock().unwrap_or_else(|x| x.into_inner());
    if let Some(h) = g.as_ref() {
        h(s, e);
    }
}

pub fn owned_live() -> usize {
    OWNED.lock().unwrap().len()
}
