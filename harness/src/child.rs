//! Anything that can crash runs in a forked child; a signal becomes data.
use crate::events::emit;
use serde_json::json;

pub struct Exit {
    pub code: i32,
    pub signal: i32,
}

/// fork; run `f` in the child (which then `_exit`s); wait for it in the parent.
/// `secs` = alarm deadline for the child (SIGALRM = hang).
pub fn run(secs: u32, f: impl Fn()) -> Exit {
    unsafe {
        let pid = libc::fork();
        assert!(pid >= 0, "fork failed");
        if pid == 0 {
            libc::alarm(secs);
            // default handling for the signals we want to observe
            for s in [libc::SIGSEGV, libc::SIGBUS, libc::SIGILL, libc::SIGABRT, libc::SIGTRAP, libc::SIGALRM] {
                libc::signal(s, libc::SIG_DFL);
            }
            f();
            libc::_exit(0);
        }
        let mut st: i32 = 0;
        loop {
            let r = libc::waitpid(pid, &mut st, 0);
            if r == pid {
                break;
            }
            if r < 0 && *libc::__errno_location() != libc::EINTR {
                break;
            }
        }
        let (code, signal) = if libc::WIFEXITED(st) {
            (libc::WEXITSTATUS(st), 0)
        } else if libc::WIFSIGNALED(st) {
            (-1, libc::WTERMSIG(st))
        } else {
            (-1, -1)
        };
        Exit { code, signal }
    }
}

/// scenarios that ended by their alarm (a hang).  After three of them the rest of the script is not run (each would
/// wait for its alarm again): they are reported as not run, the hung ones are the finding.
pub static HANGS: std::sync::atomic::AtomicUsize = std::sync::atomic::AtomicUsize::new(0);

pub fn run_logged(secs: u32, f: impl Fn()) -> Exit {
    if HANGS.load(std::sync::atomic::Ordering::SeqCst) >= 3 {
        emit(json!({"ev":"Note","what":"not-run","why":"three earlier scenarios hung"}));
        return Exit { code: 0, signal: 0 };
    }
    let mut e = run(secs, &f);
    if e.signal == libc::SIGALRM {
        // a scenario that takes milliseconds ran into its alarm: before that counts as a hang of the library it has to happen
        // again, with twice the time (a starved machine must not produce a finding); the second run's events follow the first's
        emit(json!({"ev":"Note","what":"retry-after-alarm","secs":secs}));
        e = run(secs * 2, &f);
    }
    if e.signal == libc::SIGALRM {
        HANGS.fetch_add(1, std::sync::atomic::Ordering::SeqCst);
    }
    emit(json!({"ev":"ChildExit","code":e.code,"signal":e.signal}));
    e
}
