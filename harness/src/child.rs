//! Anything that can crash runs in a forked child; a signal becomes data.
use crate::events::emit;
use serde_json::json;

pub struct Exit {
    pub code: i32,
    pub signal: i32,
}

/// fork; run `f` in the child (which then `_exit`s); wait for it in the parent.
/// `secs` = alarm deadline for the child (SIGALRM = hang).
pub fn run(secs: u32, f: impl FnOnce()) -> Exit {
    unsafe {
        let pid = libc::fork();
        assert!(pid >= 0, "fork failed");
        if pid == 0 {
            libc::alarm(secs);
            // default handling for the signals we want to observe
            for s in [libc::SIGSEGV, libc::SIGBUS, libc::SIGILL, libc::SIGABRT, libc::SIGTRAP, libc::SIGALRM] {
                libc::signal(s, libc::SIG_DFL);
            }
            f();
            libc::_exit(0);
        }
        let mut st: i32 = 0;
        loop {
            let r = libc::waitpid(pid, &mut st, 0);
            if r == pid {
                break;
            }
            if r < 0 && *libc::__errno_location() != libc::EINTR {
                break;
            }
        }
        let (code, signal) = if libc::WIFEXITED(st) {
            (libc::WEXITSTATUS(st), 0)
        } else if libc::WIFSIGNALED(st) {
            (-1, libc::WTERMSIG(st))
        } else {
            (-1, -1)
        };
        Exit { code, signal }
    }
}

pub fn run_logged(secs: u32, f: impl FnOnce()) -> Exit {
    let e = run(secs, f);
    emit(json!({"ev":"ChildExit","code":e.code,"signal":e.signal}));
    e
}
