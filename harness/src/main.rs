//! Conformance harness for the injectorpp TLA+ specification (see /verif/DESIGN.md §4).
#![allow(clippy::all)]
#![allow(dead_code)]

mod arena;
mod asyncs;
mod child;
mod events;
mod hook;
mod interpose;
mod lifecycle;
mod locks;
mod panics;
mod placement;
mod pool;
mod regs;
mod sig;
mod times;
mod watch;

pub fn tid() -> u64 {
    thread_local! { static T: std::cell::Cell<u64> = const { std::cell::Cell::new(0) }; }
    static NEXT: std::sync::atomic::AtomicU64 = std::sync::atomic::AtomicU64::new(1);
    T.with(|c| {
        if c.get() == 0 {
            c.set(NEXT.fetch_add(1, std::sync::atomic::Ordering::SeqCst));
        }
        c.get()
    })
}

pub fn seed_from_env() -> u64 {
    std::env::var("VERIF_SEED").ok().and_then(|s| s.parse().ok()).unwrap_or(1)
}

fn main() {
    let args: Vec<String> = std::env::args().collect();
    if args.len() < 2 {
        eprintln!("usage: verif-harness <driver> <script.json> <out.ndjson>");
        std::process::exit(2);
    }
    interpose::seed(seed_from_env());
    match args[1].as_str() {
        "lifecycle" => lifecycle::run(&args[2], &args[3]),
        "placement" => placement::run(&args[2], &args[3]),
        "times" => times::run(&args[2], &args[3]),
        "locks" => locks::run(&args[2], &args[3]),
        "sig" => sig::run(&args[2], &args[3]),
        "asyncs" => asyncs::run(&args[2], &args[3]),
        "regs" => regs::run(&args[2], &args[3]),
        "selfcheck" => {
            // used by `check.py setup`: proves interposition is live
            events::open(&args[2]);
            lifecycle::selfcheck();
        }
        x => {
            eprintln!("unknown driver {x}");
            std::process::exit(2);
        }
    }
}
