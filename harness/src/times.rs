//! Concurrent call-count driver (C06): k calls split over up to 16 threads released from
//! a barrier; every call is logged as CallStart / CallEnd (sequence numbers are taken
//! under the event lock, so log order respects real time); TLC picks the linearisation.
use crate::events::{emit, SCENARIO};
use crate::interpose::in_lib;
use crate::pool::{self, BAD_ARG};
use crate::{child, panics};
use injectorpp::interface::injector::*;
use serde_json::{json, Value};
use std::panic::{catch_unwind, AssertUnwindSafe};
use std::sync::atomic::Ordering::SeqCst;
use std::sync::{Arc, Barrier};

fn i(v: &Value, k: &str) -> i64 {
    v.get(k).and_then(|x| x.as_i64()).unwrap_or(0)
}

/// many threads building their injector through ONE shared helper (one fake!(.., times: 1) line): every lifetime
/// makes exactly one call, so every scope exit must be silent, whatever the interleaving of the lifetimes
fn run_helper(sc: &Value) {
    panics::install_hook();
    let threads = (i(sc, "threads") as usize).clamp(1, 16);
    let rounds = i(sc, "rounds") as usize;
    let site = (i(sc, "site") as usize) % pool::NSITES;
    pool::SITE_N[site].store(1, SeqCst);
    pool::SITE_FAKE[site].store(1, SeqCst);
    let bar = Arc::new(Barrier::new(threads));
    let mut hs = Vec::new();
    for _ in 0..threads {
        let bar = bar.clone();
        hs.push(std::thread::spawn(move || {
            bar.wait();
            let mut bad = 0u64;
            let mut first = String::new();
            for _ in 0..rounds {
                let r = catch_unwind(|| {
                    let mut inj = InjectorPP::new();
                    inj.when_called(injectorpp::func!(pool::tb1, fn(u32) -> bool)).will_execute(pool::counted_site(site));
                    let f = std::hint::black_box(pool::tb1 as fn(u32) -> bool);
                    let got = f(1);
                    drop(inj);
                    got
                });
                match r {
                    Ok(true) => {}
                    Ok(false) => {
                        bad += 1;
                        if first.is_empty() {
                            first = "the call was answered by the original".into();
                        }
                    }
                    Err(p) => {
                        bad += 1;
                        if first.is_empty() {
                            first = panics::payload_str(&*p);
                        }
                    }
                }
            }
            (bad, first)
        }));
    }
    let mut failures = 0;
    let mut first = String::new();
    for h in hs {
        if let Ok((b, f)) = h.join() {
            failures += b;
            if first.is_empty() {
                first = f;
            }
        }
    }
    emit(json!({"ev":"Helper","threads":threads,"rounds":rounds,"failures":failures,"first":first}));
}

/// "from any call site or thread": the instant the entry of the target has been flushed -- the library is still inside
/// will_execute -- ANOTHER thread calls the function.  That call belongs to the new installation: it must be answered by
/// the fake and counted from zero, in every one of `rounds` consecutive lifetimes through the same fake!(.., times: n) line.
fn run_early(sc: &Value) {
    panics::install_hook();
    let rounds = i(sc, "rounds") as usize;
    let n = (i(sc, "n") as usize).max(1);
    let site = (i(sc, "site") as usize) % pool::NSITES;
    pool::SITE_N[site].store(n, SeqCst);
    pool::SITE_FAKE[site].store(1, SeqCst);
    let target = pool::tb1 as fn(u32) -> bool as usize as u64;
    static EARLY_CALLS: std::sync::atomic::AtomicU64 = std::sync::atomic::AtomicU64::new(0);
    static EARLY_BAD: std::sync::atomic::AtomicU64 = std::sync::atomic::AtomicU64::new(0);
    static ARMED: std::sync::atomic::AtomicBool = std::sync::atomic::AtomicBool::new(false);
    let orig: [u8; 5] = unsafe { *(target as *const [u8; 5]) };
    *crate::interpose::FLUSH_HOOK.lock().unwrap() = Some(Box::new(move |s, e| {
        // the first flush that covers the entry AFTER the entry has been rewritten (a flush of the same range that comes
        // earlier, whatever a future version may add, is not the moment)
        let patched = unsafe { *(target as *const [u8; 5]) } != orig;
        if s <= target && target < e && patched && ARMED.swap(false, SeqCst) {
            let r = std::thread::spawn(|| catch_unwind(|| std::hint::black_box(pool::tb1 as fn(u32) -> bool)(1))).join();
            EARLY_CALLS.fetch_add(1, SeqCst);
            if !matches!(r, Ok(Ok(true))) {
                EARLY_BAD.fetch_add(1, SeqCst);
            }
        }
    }));
    // thousands of lifetimes: the OS-level events are not recorded here (the flush hook still fires)
    crate::interpose::QUIET_ALL.store(true, SeqCst);
    let mut failures = 0u64;
    let mut first = String::new();
    for _ in 0..rounds {
        let r = catch_unwind(|| {
            let mut inj = InjectorPP::new();
            ARMED.store(true, SeqCst);
            crate::interpose::in_lib(|| inj.when_called(injectorpp::func!(pool::tb1, fn(u32) -> bool)).will_execute(pool::counted_site(site)));
            ARMED.store(false, SeqCst);
            let f = std::hint::black_box(pool::tb1 as fn(u32) -> bool);
            let mut ok = true;
            for _ in 1..n {
                ok &= f(1);
            }
            crate::interpose::in_lib(|| drop(inj));
            ok
        });
        crate::interpose::set_in_lib(false);
        match r {
            Ok(true) => {}
            Ok(false) => {
                failures += 1;
                if first.is_empty() {
                    first = "a call was answered by the original".into();
                }
            }
            Err(p) => {
                failures += 1;
                if first.is_empty() {
                    first = panics::payload_str(&*p);
                }
            }
        }
    }
    *crate::interpose::FLUSH_HOOK.lock().unwrap() = None;
    crate::interpose::QUIET_ALL.store(false, SeqCst);
    emit(json!({"ev":"Early","rounds":rounds,"n":n,"failures":failures,"first":first,
        "early_calls":EARLY_CALLS.load(SeqCst),"early_bad":EARLY_BAD.load(SeqCst)}));
}

fn run_one(sc: &Value) {
    panics::install_hook();
    let n = i(sc, "n") as usize;
    let km = i(sc, "k_match") as usize;
    let kn = i(sc, "k_nomatch") as usize;
    let threads = (i(sc, "threads") as usize).clamp(1, 16);
    let site = (i(sc, "site") as usize) % pool::NSITES;
    // the call list, dealt round-robin after a seeded shuffle
    let mut calls: Vec<bool> = vec![true; km];
    calls.extend(vec![false; kn]);
    let mut x = crate::seed_from_env().wrapping_mul(6364136223846793005).wrapping_add(i(sc, "id") as u64) | 1;
    for j in (1..calls.len()).rev() {
        x ^= x << 13;
        x ^= x >> 7;
        x ^= x << 17;
        calls.swap(j, (x % (j as u64 + 1)) as usize);
    }
    let res = catch_unwind(AssertUnwindSafe(|| {
        let mut inj = in_lib(InjectorPP::new);
        pool::SITE_N[site].store(n, SeqCst);
        pool::SITE_FAKE[site].store(1, SeqCst);
        in_lib(|| inj.when_called(injectorpp::func!(pool::tb1, fn(u32) -> bool)).will_execute(pool::counted_site(site)));
        emit(json!({"ev":"TimesBegin","n":n,"k_match":km,"k_nomatch":kn,"threads":threads}));
        let burst = sc.get("burst").and_then(|x| x.as_bool()).unwrap_or(false);
        if burst {
            // tight loops, no logging between calls (logging serialises the callers and hides
            // races inside the counter update); per-thread outcome counts are reported at the end
            let bar = Arc::new(Barrier::new(threads));
            let mut hs = Vec::new();
            for t in 0..threads {
                let mine: Vec<bool> = calls.iter().cloned().enumerate().filter(|(j, _)| j % threads == t).map(|(_, m)| m).collect();
                let bar = bar.clone();
                hs.push(std::thread::spawn(move || {
                    let f = std::hint::black_box(pool::tb1 as fn(u32) -> bool);
                    let (mut ret, mut over, mut args, mut other) = (0u32, 0u32, 0u32, 0u32);
                    bar.wait();
                    for m in mine {
                        match catch_unwind(|| f(if m { 1 } else { BAD_ARG })) {
                            Ok(true) => ret += 1,
                            Ok(false) => other += 1,
                            Err(p) => match panics::classify(&panics::payload_str(&*p)).0 {
                                "over-called" => over += 1,
                                "unexpected-args" => args += 1,
                                _ => other += 1,
                            },
                        }
                    }
                    emit(json!({"ev":"Burst","ret":ret,"over":over,"args":args,"other":other}));
                }));
            }
            for h in hs {
                let _ = h.join();
            }
            in_lib(|| drop(inj));
            return;
        }
        let bar = Arc::new(Barrier::new(threads));
        let mut hs = Vec::new();
        for t in 0..threads {
            let mine: Vec<(usize, bool)> = calls.iter().cloned().enumerate().filter(|(j, _)| j % threads == t).collect();
            let bar = bar.clone();
            hs.push(std::thread::spawn(move || {
                bar.wait();
                for (id, m) in mine {
                    emit(json!({"ev":"CallStart","id":id + 1,"match":m}));
                    let f = std::hint::black_box(pool::tb1 as fn(u32) -> bool);
                    let r = catch_unwind(|| f(if m { 1 } else { BAD_ARG }));
                    let out = match r {
                        Ok(true) => "ret".to_string(),
                        Ok(false) => "orig".to_string(),
                        Err(p) => match panics::classify(&panics::payload_str(&*p)).0 {
                            "over-called" => "panic-over".to_string(),
                            "unexpected-args" => "panic-args".to_string(),
                            c => format!("panic-{c}"),
                        },
                    };
                    emit(json!({"ev":"CallEnd","id":id + 1,"out":out}));
                }
            }));
        }
        for h in hs {
            let _ = h.join();
        }
        in_lib(|| drop(inj));
    }));
    let (outcome, cls, exp, act) = match &res {
        Ok(()) => ("ok", "", 0, 0),
        Err(p) => {
            let m = panics::payload_str(&**p);
            let (c, a, b) = panics::classify(&m);
            ("panic", c, a, b)
        }
    };
    emit(json!({"ev":"Exit","outcome":outcome,"cls":cls,"exp":exp,"act":act}));
}

pub fn run(script: &str, out: &str) {
    crate::events::open(out);
    let text = std::fs::read_to_string(script).expect("script");
    for line in text.lines() {
        if line.trim().is_empty() {
            continue;
        }
        let sc: Value = serde_json::from_str(line).expect("scenario json");
        SCENARIO.store(i(&sc, "id") as u64, SeqCst);
        if sc.get("mode").and_then(|x| x.as_str()) == Some("helper") {
            child::run_logged(120, || run_helper(&sc));
        } else if sc.get("mode").and_then(|x| x.as_str()) == Some("early") {
            child::run_logged(120, || run_early(&sc));
        } else {
            child::run_logged(30, || run_one(&sc));
        }
    }
}
