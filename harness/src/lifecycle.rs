//! Driver for API-level behaviours (spec -> impl replay) that also records the OS-level
//! event stream of the same run (impl -> spec validation).
use crate::events::{emit, SCENARIO};
use crate::interpose::{self, in_lib, set_in_lib, Policy};
use crate::panics::{self, UserPanic};
use crate::pool::{self, InstallSpec, Pool};
use crate::{child, watch};
use injectorpp::interface::injector::*;
use serde_json::{json, Value};
use std::panic::{catch_unwind, resume_unwind, AssertUnwindSafe};
use std::sync::atomic::Ordering::SeqCst;

pub fn lock_state() -> u8 {
    crate::hook::lock_state()
}

struct DropMarker {
    munmap_fault: bool,
    mprotect_fault: bool,
}
impl Drop for DropMarker {
    fn drop(&mut self) {
        let how = if std::thread::panicking() { "unwind" } else { "scope" };
        emit(json!({"ev":"DropBegin","how":how,"munmap_fault":self.munmap_fault}));
        if self.munmap_fault {
            // the first munmap of the scope exit fails (ENOMEM: the VMA cannot be split)
            interpose::set_policy(Some(Policy { munmap_fail_at: 1, ..Default::default() }));
        }
        if self.mprotect_fault {
            // the page of the (only) patched function cannot be made writable any more when it is to be restored
            interpose::set_policy(Some(Policy { mprotect_fail_at: 1, ..Default::default() }));
        }
        set_in_lib(true);
    }
}

fn s(v: &Value, k: &str) -> String {
    v.get(k).and_then(|x| x.as_str()).unwrap_or("").to_string()
}
fn i(v: &Value, k: &str) -> i64 {
    v.get(k).and_then(|x| x.as_i64()).unwrap_or(0)
}

pub fn emit_targets(pool: &dyn Pool, nf: usize) {
    watch::clear();
    for f in 1..=nf {
        let a = pool.addr(f);
        let name = format!("f{f}");
        watch::add_entry(&name, a, 32);
        let bytes = unsafe { std::slice::from_raw_parts(a as *const u8, 32) }.to_vec();
        let split = 4096 - (a & 0xfff) as usize; // bytes of the slot on the first page
        emit(json!({"ev":"Target","f":name,"orig":bytes,"split":split,"rwpages":watch::writable_pages(a),
            "addr":crate::events::a8(a)}));
    }
}

fn probe(pool: &dyn Pool, nf: usize, matching: bool) {
    for f in 1..=nf {
        one_call(pool, f, matching);
    }
}

pub static CAUGHT: std::sync::atomic::AtomicUsize = std::sync::atomic::AtomicUsize::new(0);

fn one_call(pool: &dyn Pool, f: usize, matching: bool) {
    let r = pool.call(f, matching);
    if r.is_err() {
        CAUGHT.fetch_add(1, SeqCst);
    }
    let res = match r {
        Ok(who) => who,
        Err(msg) => match panics::classify(&msg).0 {
            "over-called" => "panic-over".to_string(),
            "unexpected-args" => "panic-args".to_string(),
            _ => format!("panic-other:{msg}"),
        },
    };
    emit(json!({"ev":"Call","f":format!("f{f}"),"match":matching,"res":res}));
}

/// functions whose installation panicked in this process (gate refusals and injected faults alike), oldest first
pub static REFUSED: std::sync::Mutex<Vec<usize>> = std::sync::Mutex::new(Vec::new());
pub static USE_DEFAULT_CTOR: std::sync::atomic::AtomicBool = std::sync::atomic::AtomicBool::new(false);

fn run_life(pool: &dyn Pool, nf: usize, life: &Value) {
    let kind = s(life, "kind");
    let steps = life.get("steps").and_then(|x| x.as_array()).cloned().unwrap_or_default();
    let p0 = panics::COUNT.load(SeqCst);
    let c0 = CAUGHT.load(SeqCst);
    panics::LOCK_AT_VERIFY.store(-1, SeqCst);
    let res = catch_unwind(AssertUnwindSafe(|| {
        if kind == "prev" {
            let _g = in_lib(InjectorPP::prevent);
            emit(json!({"ev":"Acquire","kind":"prev","lock":lock_state()}));
            let _m = DropMarker { munmap_fault: false, mprotect_fault: false };
            for st in &steps {
                match s(st, "op").as_str() {
                    "probe" => probe(pool, nf, true),
                    "panic" => {
                        emit(json!({"ev":"UserPanic"}));
                        std::panic::panic_any(UserPanic);
                    }
                    _ => {}
                }
            }
            return;
        }
        // both ways of creating an injector
        let mut inj = if USE_DEFAULT_CTOR.load(SeqCst) { in_lib(InjectorPP::default) } else { in_lib(InjectorPP::new) };
        emit(json!({"ev":"Acquire","kind":"inj","lock":lock_state()}));
        let _m = DropMarker { munmap_fault: s(life, "drop_fault") == "munmap", mprotect_fault: s(life, "drop_fault") == "mprotect" };
        for st in &steps {
            match s(st, "op").as_str() {
                "install" => {
                    let spec = InstallSpec {
                        f: i(st, "f") as usize,
                        kind: s(st, "kind"),
                        fake: s(st, "fake"),
                        flavour: s(st, "flavour"),
                        site: i(st, "site") as usize,
                        n: i(st, "n"),
                        gate: s(st, "gate"),
                    };
                    emit(json!({"ev":"InstallBegin","f":format!("f{}",spec.f),"kind":spec.kind,"fake":spec.fake,
                        "site":spec.site,"n":spec.n,"flavour":spec.flavour,"gate":spec.gate,"fault":s(st,"fault")}));
                    match s(st, "fault").as_str() {
                        "mmap" => {
                            interpose::QUIET_FAILS.store(true, SeqCst);
                            interpose::set_policy(Some(Policy { mmap_fail_from: 1, ..Default::default() }));
                        }
                        "mprotect" if s(life, "deny") == "page" || s(life, "deny") == "page2" => {
                            // the target's (first or second) page never becomes writable, now or while the scope is left
                            let second = if s(life, "deny") == "page2" { 4096 } else { 0 };
                            interpose::DENY_PAGE.store((pool.addr(spec.f) & !0xfff) + second, SeqCst);
                        }
                        "mprotect" => interpose::set_policy(Some(Policy { mprotect_fail_at: 1, ..Default::default() })),
                        _ => {}
                    }
                    let nver0 = 0;
                    let _ = nver0;
                    let r = catch_unwind(AssertUnwindSafe(|| in_lib(|| pool.install(&mut inj, &spec))));
                    interpose::set_policy(None);
                    interpose::QUIET_FAILS.store(false, SeqCst);
                    watch::diff_all("install-end");
                    match r {
                        Ok(()) => emit(json!({"ev":"InstallEnd","outcome": if spec.gate == "abandon" { "abandoned" } else { "ok" },
                            "cls":"","lock":lock_state(),"live":interpose::owned_live()})),
                        Err(p) => {
                            REFUSED.lock().unwrap_or_else(|e| e.into_inner()).push(spec.f);
                            let msg = panics::payload_str(&*p);
                            let (cls, _, _) = panics::classify(&msg);
                            // will_execute stores its verifier before the signature is looked at
                            let kept = spec.n >= 0;
                            // "caught": the caller catches the panic of the refused / failed installation and goes on using the injector
                            let caught = st.get("caught").and_then(|x| x.as_bool()).unwrap_or(false);
                            emit(json!({"ev":"InstallEnd","outcome":"panic","cls":cls,"msg":msg,"lock":lock_state(),
                                "live":interpose::owned_live(),"verifier_kept":kept,"caught":caught,
                                "quiet_mmap_fails":interpose::QUIET_COUNT.swap(0, SeqCst)}));
                            if !caught {
                                resume_unwind(p);
                            }
                        }
                    }
                }
                "probe" => probe(pool, nf, true),
                "mkptr" => {
                    if pool.name().starts_with("rust") {
                        for f in 1..=nf {
                            pool::make_ptr(f);
                        }
                    }
                }
                "call" => one_call(pool, i(st, "f") as usize, st.get("match").and_then(|x| x.as_bool()).unwrap_or(true)),
                "call_unwind" => {
                    // a call whose panic (rejected arguments / over-called) is NOT caught by the
                    // caller: it unwinds the scope that owns the injector
                    let f = i(st, "f") as usize;
                    let m = st.get("match").and_then(|x| x.as_bool()).unwrap_or(true);
                    emit(json!({"ev":"CallUnwind","f":format!("f{f}"),"match":m}));
                    let r = pool.call_nocatch(f, m);
                    emit(json!({"ev":"Call","f":format!("f{f}"),"match":m,"res":r,"after_unwind_call":true}));
                }
                "diff" => {}
                "panic" => {
                    emit(json!({"ev":"UserPanic"}));
                    std::panic::panic_any(UserPanic);
                }
                x => panic!("harness: unknown op {x}"),
            }
        }
    }));
    set_in_lib(false);
    interpose::set_policy(None);
    interpose::DENY_PAGE.store(0, SeqCst);
    watch::diff_all("drop-end");
    // panics raised by fakes and caught by the caller are not part of an unwinding episode
    let pn = (panics::COUNT.load(SeqCst) - p0) - (CAUGHT.load(SeqCst) - c0);
    let (outcome, cls, exp, act, msg) = match &res {
        Ok(()) => ("ok", "", 0, 0, String::new()),
        Err(p) => {
            let msg = panics::payload_str(&**p);
            let (c, a, b) = panics::classify(&msg);
            // a user panic / install panic that unwound the scope is not raised BY the drop
            if c == "count" { ("panic", c, a, b, msg) } else { ("ok", c, 0, 0, msg) }
        }
    };
    emit(json!({"ev":"DropEnd","outcome":outcome,"cls":cls,"exp":exp,"act":act,"msg":msg,"lock":lock_state(),
        "panics":pn,"live":interpose::owned_live(),"rwx_anon":watch::rwx_anon_count(),
        "lock_at_verify":panics::LOCK_AT_VERIFY.load(SeqCst)}));
}

/// run `f` from a destructor while the thread unwinds from an unrelated panic: everything the library
/// does must be the same when `std::thread::panicking()` is already true (only the call-count verifier
/// is, by design, silent then)
fn ambient_unwind(f: impl FnOnce()) {
    struct OnDrop<F: FnOnce()>(Option<F>);
    impl<F: FnOnce()> Drop for OnDrop<F> {
        fn drop(&mut self) {
            if let Some(f) = self.0.take() {
                f();
            }
        }
    }
    let _ = catch_unwind(AssertUnwindSafe(|| {
        let _g = OnDrop(Some(f));
        std::panic::panic_any(UserPanic);
    }));
}

fn run_scenario(sc: &Value) {
    panics::install_hook();
    let pool = pool::make(&s(sc, "pool"));
    let nf = (i(sc, "nf") as usize).clamp(1, pool.nfuncs());
    emit(json!({"ev":"Note","what":"scenario","id":i(sc,"id"),"pool":pool.name()}));
    emit_targets(&*pool, nf);
    let want_diff = sc.get("diff").and_then(|x| x.as_bool()).unwrap_or(false);
    let img = if want_diff { Some(watch::exec_image(&[])) } else { None };
    let lives = sc.get("lives").and_then(|x| x.as_array()).cloned().unwrap_or_default();
    USE_DEFAULT_CTOR.store(s(sc, "ctor") == "default", SeqCst);
    let ambient = sc.get("ambient").and_then(|x| x.as_bool()).unwrap_or(false);
    if ambient {
        emit(json!({"ev":"Ambient","panicking":true}));
    }
    for life in &lives {
        if s(life, "kind") == "regen" {
            pool::regen_paged(i(life, "f") as usize);
            emit(json!({"ev":"Note","what":"regenerated","f":format!("f{}", i(life, "f"))}));
            emit_targets(&*pool, nf);
            probe(&*pool, nf, true);
            continue;
        }
        if ambient {
            ambient_unwind(|| run_life(&*pool, nf, life));
        } else {
            run_life(&*pool, nf, life);
        }
        if let Some(img) = &img {
            watch::emit_diff(img, "after");
        }
        probe(&*pool, nf, true);
        if pool.name() == "generic" {
            // the instantiation that was never named still runs its own code
            emit(json!({"ev":"Neighbour","what":"gen_target::<u32>","ok":pool::GenericPool::sibling_ok()}));
        }
    }
    // ... "and use it normally": every function of the pool -- in particular one whose installation was refused or failed
    // earlier in this process -- can be faked again now, the fake answers, and the original is back afterwards
    let nfp = nf;
    let pname = pool.name();
    let each = std::thread::spawn(move || {
        let pool = pool::make(pname);
        // the functions refused earlier come first, the most recent one first (nothing else is installed in between)
        let mut order: Vec<usize> = REFUSED.lock().unwrap_or_else(|e| e.into_inner()).iter().rev().cloned().filter(|f| *f >= 1 && *f <= nfp).collect();
        order.extend(1..=nfp);
        let mut seen = std::collections::HashSet::new();
        order.retain(|f| seen.insert(*f));
        pname == "async" || order.into_iter().all(|f| {
            catch_unwind(AssertUnwindSafe(|| {
                let mut inj = InjectorPP::new();
                let fl = pool.flavours("jump")[0].to_string();
                pool.install(&mut inj, &pool::InstallSpec { f, kind: "jump".into(), fake: "k1".into(), flavour: fl, site: 0, n: -1, gate: "ok".into() });
                let faked = pool.call(f, true);
                drop(inj);
                let back = pool.call(f, true);
                faked.as_deref() == Ok("k1") && back.as_deref() == Ok("orig")
            }))
            .unwrap_or(false)
        })
    })
    .join()
    .unwrap_or(false);
    // a fresh thread can create and use an injector
    let t0 = std::time::Instant::now();
    let h = std::thread::spawn(|| {
        let r = catch_unwind(|| {
            let mut inj = InjectorPP::new();
            inj.when_called(injectorpp::func!(pool::tb4, fn(u32) -> bool)).will_return_boolean(true);
            let a = std::hint::black_box(pool::tb4 as fn(u32) -> bool)(2);
            drop(inj);
            a
        });
        matches!(r, Ok(true))
    });
    let works = h.join().unwrap_or(false) && each;
    // the other guard kind too: a preventer on this thread and on a new one, then an injector again
    let prev_here = catch_unwind(|| {
        let g = InjectorPP::prevent();
        let _ = std::hint::black_box(pool::tb4 as fn(u32) -> bool)(2);
        let ok = g.is_active() && pool::LAST.load(SeqCst) == 104; // the original body ran
        drop(g);
        ok
    })
    .unwrap_or(false);
    let prev_there = std::thread::spawn(|| catch_unwind(|| { let g = InjectorPP::prevent(); g.is_active() }).unwrap_or(false)).join().unwrap_or(false);
    let inj_again = catch_unwind(|| { let _i = InjectorPP::new(); matches!(crate::hook::lock_state(), 1 | 255) }).unwrap_or(false);
    emit(json!({"ev":"Fresh","works":works && prev_here && prev_there && inj_again,"injector_new_thread":works,
        "preventer_same_thread":prev_here,"preventer_new_thread":prev_there,"injector_same_thread":inj_again,
        "ms":t0.elapsed().as_millis() as u64}));
}

/// C12: many create / install / drop cycles in ONE process (0-4 installs per cycle, mixed kinds, repeated targets,
/// refusals, exits by scope end or by unwinding).  The first `full` cycles are recorded event by event (validated like
/// any lifecycle trace); every cycle reports its mapping accounting.
fn run_cycles(sc: &Value) {
    panics::install_hook();
    let pool = pool::make("rust");
    let nf = 4;
    let cycles = i(sc, "cycles") as usize;
    let full = i(sc, "full") as usize;
    emit_targets(&*pool, nf);
    let rwx0 = watch::rwx_anon_count();
    let big_every = (i(sc, "big_every") as usize).max(1);
    let snap: Vec<Vec<u8>> = (1..=nf).map(|f| unsafe { std::slice::from_raw_parts(pool.addr(f) as *const u8, 16) }.to_vec()).collect();
    LIFT_SNAP.with(|s| *s.borrow_mut() = snap.clone());
    let mut x = crate::seed_from_env().wrapping_mul(0x9E3779B97F4A7C15) ^ (i(sc, "id") as u64) | 1;
    let mut rnd = move || {
        x ^= x << 13;
        x ^= x >> 7;
        x ^= x << 17;
        x
    };
    let flav = ["raw", "rawfn", "closure", "fake", "unchecked"];
    for c in 0..cycles {
        interpose::QUIET_ALL.store(c >= full, SeqCst);
        // 0-4 installations per lifetime as a rule; every 997th lifetime holds many at once (dozens to a few hundred)
        let k = if c % big_every == big_every - 1 { [33usize, 64, 65, 100, 129, 257, 300][(rnd() % 7) as usize] } else { (rnd() % 5) as usize };
        let mut steps = Vec::new();
        for _ in 0..k {
            let f = 1 + rnd() % nf as u64;
            let r = rnd() % 10;
            let (kind, fake, flavour, gate) = if r < 2 { ("bool", if rnd() % 2 == 0 { "true" } else { "false" }, "bool", "ok") }
                else if r == 2 && k < 10 { ("jump", "k1", "raw", "sig") }
                else { ("jump", ["k1", "k2", "k3"][(rnd() % 3) as usize], flav[(rnd() % 5) as usize], "ok") };
            steps.push(json!({"op":"install","f":f,"kind":kind,"fake":fake,"flavour":flavour,"site":0,"n":-1,"gate":gate,"fault":"none"}));
            if gate != "ok" {
                break;
            }
        }
        // in the quiet cycles, now and then: the program lifts a fake BY HAND while it is installed -- it writes the function's
        // own bytes back over the entry (what a JIT does when it re-emits a function, or a test that "unfakes" early); the
        // scope exit must still release what the installation obtained and leave the function as it was
        if c >= full && k > 0 && rnd() % 5 == 0 {
            steps.push(json!({"op":"lift"}));
        }
        if rnd() % 4 == 0 {
            steps.push(json!({"op":"panic"}));
        }
        let m0 = (interpose::N_MMAP_OK.load(SeqCst), interpose::N_MUNMAP_OK.load(SeqCst), interpose::N_FOREIGN.load(SeqCst));
        if c < full {
            run_life(&*pool, nf, &json!({"kind":"inj","steps":steps}));
        } else {
            run_life_quiet(&*pool, &steps);
        }
        let m1 = (interpose::N_MMAP_OK.load(SeqCst), interpose::N_MUNMAP_OK.load(SeqCst), interpose::N_FOREIGN.load(SeqCst));
        if c >= full {
            // every function's entry is byte for byte what it was before the first lifetime
            let restored = (1..=nf).all(|f| unsafe { std::slice::from_raw_parts(pool.addr(f) as *const u8, 16) } == &snap[f - 1][..]);
            emit(json!({"ev":"Cycle","i":c,"installs":k,"mmaps_ok":m1.0 - m0.0,"munmaps_ok":m1.1 - m0.1,"foreign":m1.2 - m0.2,
                "live_after":interpose::owned_live(),"lock":lock_state(),"restored":restored}));
        }
        if interpose::owned_live() > 256 {
            // hundreds of mappings left behind: the leak is established (every recorded cycle says so); going on would
            // only make the allocator's search quadratic
            emit(json!({"ev":"Cycle","i":c,"installs":k,"mmaps_ok":m1.0 - m0.0,"munmaps_ok":m1.1 - m0.1,"foreign":m1.2 - m0.2,
                "live_after":interpose::owned_live(),"lock":lock_state(),"stopped_early":true}));
            break;
        }
    }
    interpose::QUIET_ALL.store(false, SeqCst);
    emit(json!({"ev":"Maps","rwx_before":rwx0,"rwx_after":watch::rwx_anon_count(),"live":interpose::owned_live(),"cycles":cycles}));
    probe(&*pool, nf, true);
}

/// a lifetime without per-step events
fn run_life_quiet(pool: &dyn Pool, steps: &[Value]) {
    let _ = catch_unwind(AssertUnwindSafe(|| {
        let mut inj = in_lib(InjectorPP::new);
        struct InLibOnDrop;
        impl Drop for InLibOnDrop {
            fn drop(&mut self) {
                set_in_lib(true);
            }
        }
        let _m = InLibOnDrop;
        for st in steps {
            match s(st, "op").as_str() {
                "install" => {
                    let spec = InstallSpec { f: i(st, "f") as usize, kind: s(st, "kind"), fake: s(st, "fake"), flavour: s(st, "flavour"),
                        site: 0, n: -1, gate: s(st, "gate") };
                    in_lib(|| pool.install(&mut inj, &spec));
                }
                "lift" => {
                    // the entry pages are writable: the library made them so and leaves them so
                    for f in 1..=4usize.min(pool.nfuncs()) {
                        let a = pool.addr(f);
                        let pg = a & !0xfff;
                        unsafe {
                            interpose::raw_mprotect(pg, 8192, libc::PROT_READ | libc::PROT_WRITE | libc::PROT_EXEC);
                            std::ptr::copy_nonoverlapping(LIFT_SNAP.with(|s| s.borrow()[f - 1].as_ptr()), a as *mut u8, 16);
                        }
                    }
                }
                "panic" => std::panic::panic_any(UserPanic),
                _ => {}
            }
        }
    }));
    set_in_lib(false);
}
thread_local! { static LIFT_SNAP: std::cell::RefCell<Vec<Vec<u8>>> = const { std::cell::RefCell::new(Vec::new()) }; }

pub fn run(script: &str, out: &str) {
    crate::events::open(out);
    let text = std::fs::read_to_string(script).expect("script");
    for line in text.lines() {
        if line.trim().is_empty() {
            continue;
        }
        let sc: Value = serde_json::from_str(line).expect("scenario json");
        SCENARIO.store(i(&sc, "id") as u64, SeqCst);
        if s(&sc, "mode") == "cycles" {
            child::run_logged(1200, || run_cycles(&sc));
        } else {
            child::run_logged(20, || run_scenario(&sc));
        }
    }
}

pub fn selfcheck() {
    panics::install_hook();
    let pool = pool::make("rust");
    emit_targets(&*pool, 1);
    let life = json!({"kind":"inj","steps":[{"op":"install","f":1,"kind":"jump","fake":"k1","flavour":"raw","site":0,"n":-1,"gate":"ok","fault":"none"},{"op":"probe"}]});
    run_life(&*pool, 1, &life);
    let n = (interpose::N_MMAP.load(SeqCst), interpose::N_MUNMAP.load(SeqCst), interpose::N_MPROTECT.load(SeqCst), interpose::N_FLUSH.load(SeqCst));
    println!("interposed mmap={} munmap={} mprotect={} flush={}", n.0, n.1, n.2, n.3);
    if n.0 == 0 || n.1 == 0 || n.2 == 0 || n.3 == 0 {
        std::process::exit(3);
    }
}
