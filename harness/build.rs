//! Copies the architecture-specific emitters of /repo into OUT_DIR so that they compile on
//! this x86-64 host against a shim `common` module (simulated memory).  Exactly three textual
//! substitutions are made (DESIGN.md 4.1):
//!   1. the `#![cfg(target_arch = ...)]` line is dropped,
//!   2. `crate::injector_core::` becomes `super::`,
//!   3. `target_os = "macos"` becomes `all()` (macOS variant) or `any()` (other variants).
//! The emitters under test are the repository's own text.
use std::fs;
use std::path::Path;

fn main() {
    let repo = "/repo/src/injector_core";
    let out = std::env::var("OUT_DIR").unwrap();
    let files = ["patch_arm64.rs", "arm64_codegenerator.rs", "utils.rs", "patch_arm.rs", "patch_amd64.rs", "patch_trait.rs"];
    for f in files {
        println!("cargo:rerun-if-changed={repo}/{f}");
    }
    println!("cargo:rerun-if-changed=build.rs");
    for (variant, macos) in [("a64_linux", false), ("a64_macos", true), ("arm", false), ("x64sim", false)] {
        let dir = Path::new(&out).join(variant);
        fs::create_dir_all(&dir).unwrap();
        for f in files {
            let src = match fs::read_to_string(format!("{repo}/{f}")) {
                Ok(s) => s,
                Err(_) => String::from("// missing in this tree\n"),
            };
            let mut text = String::new();
            for line in src.lines() {
                if line.trim_start().starts_with("#![cfg(target_arch") {
                    continue;
                }
                text.push_str(line);
                text.push('\n');
            }
            let text = text
                .replace("crate::injector_core::", "super::")
                .replace("target_os = \"macos\"", if macos { "all()" } else { "any()" });
            fs::write(dir.join(f), text).unwrap();
        }
    }
}
