fn main() {
    println!("cargo:rerun-if-changed=build.rs");
}
