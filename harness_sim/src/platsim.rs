//! Platform variants (C17, C11, C12 on macOS / Windows / Linux-arm64): the repository's own common.rs -- trampoline
//! allocation, page protection, the write + flush primitives, PatchGuard -- and its emitters, compiled on this host for
//! other (os, arch) pairs (build.rs) against shims of the OS items.  Memory is REAL host memory (one arena: the target
//! function's page and the pages handed out as trampolines), so the library's own `ptr::copy` writes are observed by
//! diffing the arena at every OS call and at every return to the caller.  The bytes are never executed.
use crate::events::{emit, SCENARIO};
use serde_json::{json, Value};
use std::cell::RefCell;
use std::sync::atomic::Ordering::SeqCst;

pub const ARENA_PAGES: usize = 48;      // three 64 KiB allocation-granularity regions; the arena is 64 KiB aligned
pub struct Plat {
    pub base: u64,
    pub snap: Vec<u8>,
    pub handed: Vec<u64>,     // pages handed out by the allocation shim and not released
    pub calls: u64,
    pub fail_protect: bool,
    /// kernel-like answers: a Unix mmap whose hint is not a free arena page answers with another (the lowest free) arena page;
    /// a Windows VirtualAlloc rounds the address down to the 64 KiB allocation granularity
    pub near: bool,
    pub win: bool,
    /// placement requests refused since the library last returned to its caller
    pub refused: u64,
}
thread_local! { pub static PS: RefCell<Option<Plat>> = RefCell::new(None); }

fn arena_base() -> u64 {
    PS.with(|p| p.borrow().as_ref().map(|x| x.base).unwrap_or(0))
}
fn in_arena(a: u64, len: u64) -> bool {
    let b = arena_base();
    b != 0 && a >= b && a + len <= b + (ARENA_PAGES as u64) * 4096
}
/// bytes the library changed since the last observation
pub fn observe() {
    PS.with(|p| {
        let mut p = p.borrow_mut();
        let Some(pl) = p.as_mut() else { return };
        let cur = unsafe { std::slice::from_raw_parts(pl.base as *const u8, ARENA_PAGES * 4096) };
        let mut i = 0;
        while i < cur.len() {
            if cur[i] != pl.snap[i] {
                let mut j = i;
                while j < cur.len() && (cur[j] != pl.snap[j] || (j + 1 < cur.len() && cur[j + 1] != pl.snap[j + 1])) {
                    j += 1;
                }
                emit(json!({"ev":"PWrite","off":i,"len":j - i}));
                i = j;
            } else {
                i += 1;
            }
        }
        pl.snap.copy_from_slice(cur);
    })
}
fn rel(a: u64) -> i64 {
    a as i64 - arena_base() as i64
}
fn os(name: &str, addr: u64, len: u64, extra: Value) {
    if AP.with(|a| a.borrow().is_some()) {
        return; // allocator-only runs: up to a million requests, summarised at the end
    }
    observe();
    emit(json!({"ev":"POs","call":name,"off":rel(addr),"len":len,"in_arena":in_arena(addr, len.max(1)),"x":extra}));
}
fn flush(name: &str, addr: u64, len: u64) {
    observe();
    emit(json!({"ev":"PFlush","how":name,"off":rel(addr),"len":len,"in_arena":in_arena(addr, len.max(1))}));
}
/// allocator-only runs: a simulated address space (nothing is written through the returned pointers).  A hinted request is
/// granted exactly there when the page is in `free`; otherwise the kernel answers `elsewhere` (0 = failure).  A request
/// without a hint is answered `null_answer` (0 = failure).
#[derive(Default, Clone)]
pub struct AllocPolicy {
    pub free: std::collections::BTreeSet<u64>,
    pub elsewhere: u64,
    pub null_answer: u64,
    pub handed: Vec<u64>,
    pub calls: u64,
}
thread_local! { pub static AP: RefCell<Option<AllocPolicy>> = RefCell::new(None); }

fn policy_grant(hint: u64) -> Option<u64> {
    AP.with(|a| {
        let mut a = a.borrow_mut();
        let pol = a.as_mut()?;
        pol.calls += 1;
        let page = hint & !0xfff;
        let r = if hint == 0 {
            pol.null_answer
        } else if pol.free.contains(&page) && !pol.handed.contains(&page) {
            page
        } else if pol.elsewhere != 0 && !pol.handed.contains(&pol.elsewhere) {
            pol.elsewhere
        } else {
            0
        };
        if r != 0 {
            pol.handed.push(r);
        }
        Some(r)
    })
}
fn policy_release(addr: u64) -> Option<bool> {
    AP.with(|a| {
        let mut a = a.borrow_mut();
        let pol = a.as_mut()?;
        let n = pol.handed.len();
        pol.handed.retain(|x| *x != addr);
        Some(pol.handed.len() != n)
    })
}

/// the allocation shims grant exactly the asked page when it is a free page of the arena, and nothing else
fn grant(hint: u64, size: usize) -> u64 {
    if let Some(r) = policy_grant(hint) {
        return r;
    }
    let page = hint & !0xfff;
    PS.with(|p| {
        let mut p = p.borrow_mut();
        let pl = p.as_mut().unwrap();
        pl.calls += 1;
        let top = pl.base + (ARENA_PAGES as u64) * 4096;
        let ok = page >= pl.base + 2 * 4096 && page + 4096 <= top && size <= 4096 && !pl.handed.contains(&page);
        let r = if pl.near && pl.win {
            let region = hint & !0xffff;
            let free = region > pl.base && region + 0x10000 <= top && size <= 0x10000 && !pl.handed.iter().any(|h| h & !0xffff == region);
            if free { region } else { 0 }
        } else if ok {
            page
        } else if pl.near && size <= 4096 {
            (2..ARENA_PAGES as u64).map(|i| pl.base + i * 4096).find(|pg| !pl.handed.contains(pg)).unwrap_or(0)
        } else {
            0
        };
        if r != 0 {
            pl.handed.push(r);
        } else {
            pl.refused += 1;
        }
        r
    })
}
fn give_back(addr: u64) -> bool {
    if let Some(r) = policy_release(addr) {
        return r;
    }
    PS.with(|p| {
        let mut p = p.borrow_mut();
        let pl = p.as_mut().unwrap();
        let n = pl.handed.len();
        pl.handed.retain(|x| *x != addr);
        pl.handed.len() != n
    })
}

#[allow(non_snake_case, non_camel_case_types, non_upper_case_globals, dead_code, clippy::all)]
pub mod shims {
    use super::*;
    pub fn barrier() {
        observe();
        emit(json!({"ev":"PBarrier"}));
    }
    pub mod libc_shim {
        use super::super::*;
        // anything not overridden below is the host's libc (a change to the library that calls another libc item still builds)
        pub use libc::*;
        pub use std::ffi::c_void;
        pub type c_int = i32;
        pub type mach_vm_address_t = u64;
        pub type vm_prot_t = i32;
        pub const PROT_READ: c_int = 1;
        pub const PROT_WRITE: c_int = 2;
        pub const PROT_EXEC: c_int = 4;
        pub const MAP_PRIVATE: c_int = 2;
        pub const MAP_ANON: c_int = 0x1000;
        pub const MAP_ANONYMOUS: c_int = 0x20;
        pub const MAP_JIT: c_int = 0x800;
        pub const MAP_FAILED: *mut c_void = !0usize as *mut c_void;
        pub const _SC_PAGESIZE: c_int = 30;
        pub const VM_PROT_READ: vm_prot_t = 1;
        pub const VM_PROT_WRITE: vm_prot_t = 2;
        pub const VM_PROT_EXECUTE: vm_prot_t = 4;
        pub unsafe fn sysconf(_name: c_int) -> i64 {
            4096
        }
        pub unsafe fn mmap(addr: *mut c_void, len: usize, prot: c_int, flags: c_int, _fd: c_int, _off: i64) -> *mut c_void {
            let r = grant(addr as u64, len);
            if r != 0 {
                os("mmap", r, len as u64, json!({"prot":prot,"flags":flags}));
                r as *mut c_void
            } else {
                MAP_FAILED
            }
        }
        pub unsafe fn munmap(addr: *mut c_void, len: usize) -> c_int {
            // as the kernel: EINVAL for a length of 0 or an address that is not page-aligned
            let ok = len > 0 && (addr as u64) & 0xfff == 0 && give_back(addr as u64);
            os("munmap", addr as u64, len as u64, json!({"owned":ok}));
            if ok { 0 } else { -1 }
        }
        pub unsafe fn mprotect(addr: *mut c_void, len: usize, prot: c_int) -> c_int {
            // as the kernel: EINVAL for an address that is not page-aligned
            let ok = (addr as u64) & 0xfff == 0;
            os("mprotect", addr as u64, len as u64, json!({"prot":prot,"ok":ok}));
            if ok { 0 } else { -1 }
        }
        pub unsafe fn pthread_jit_write_protect_np(enabled: c_int) {
            os("jit_write_protect", arena_base(), 0, json!({"enabled":enabled}));
        }
    }
    pub mod linuxapi {
        pub unsafe fn __clear_cache(start: *mut u8, end: *mut u8) {
            super::super::flush("__clear_cache", start as u64, (end as u64).saturating_sub(start as u64));
        }
    }
    pub mod macosapi {
        pub unsafe fn sys_dcache_flush(start: *mut u8, len: usize) {
            super::super::os("sys_dcache_flush", start as u64, len as u64, serde_json::json!({}));
        }
        pub unsafe fn sys_icache_invalidate(start: *mut u8, len: usize) {
            super::super::flush("sys_icache_invalidate", start as u64, len as u64);
        }
    }
    pub mod mach2 {
        pub mod traps {
            pub unsafe fn mach_task_self() -> u32 {
                1
            }
        }
        pub mod vm {
            use super::super::super::*;
            /// the alias the library asks for is the memory itself (identity remap): what it writes through the alias
            /// lands in the function, as on the real system
            pub unsafe fn mach_vm_remap(_t: u32, target: *mut u64, size: u64, _mask: u64, flags: i32, _st: u32, src: u64, _copy: u32,
                                        _cur: *mut i32, _max: *mut i32, _inh: u32) -> i32 {
                if flags & super::vm_statistics::VM_FLAGS_OVERWRITE == 0 {
                    *target = src;
                }
                os("mach_vm_remap", src, size, json!({"flags":flags}));
                0
            }
            pub unsafe fn mach_vm_protect(_t: u32, addr: u64, size: u64, _set_max: u32, prot: i32) -> i32 {
                os("mach_vm_protect", addr, size, json!({"prot":prot}));
                0
            }
        }
        pub mod vm_inherit {
            pub const VM_INHERIT_NONE: u32 = 2;
        }
        pub mod vm_prot {
            pub const VM_PROT_COPY: i32 = 0x10;
        }
        pub mod vm_statistics {
            pub const VM_FLAGS_ANYWHERE: i32 = 1;
            pub const VM_FLAGS_OVERWRITE: i32 = 0x4000;
            pub const VM_FLAGS_RETURN_DATA_ADDR: i32 = 0x100000;
        }
    }
    pub mod winapi {
        use super::super::*;
        pub use std::ffi::c_void;
        pub const MEM_COMMIT: u32 = 0x1000;
        pub const MEM_RESERVE: u32 = 0x2000;
        pub const PAGE_EXECUTE_READWRITE: u32 = 0x40;
        pub const MEM_RELEASE: u32 = 0x8000;
        pub unsafe fn VirtualProtect(addr: *mut c_void, size: usize, prot: u32, old: *mut u32) -> i32 {
            *old = 0x20;
            os("VirtualProtect", addr as u64, size as u64, json!({"prot":prot}));
            1
        }
        pub unsafe fn VirtualAlloc(addr: *mut c_void, size: usize, ty: u32, prot: u32) -> *mut c_void {
            let r = grant(addr as u64, size);
            if r != 0 {
                os("VirtualAlloc", r, size as u64, json!({"type":ty,"prot":prot}));
            }
            r as *mut c_void
        }
        pub unsafe fn VirtualFree(addr: *mut c_void, size: usize, ty: u32) -> i32 {
            // as the system: MEM_RELEASE wants the base address of the allocation and a size of 0
            let ok = ty == MEM_RELEASE && size == 0 && give_back(addr as u64);
            os("VirtualFree", addr as u64, size as u64, json!({"owned":ok,"type":ty}));
            ok as i32
        }
        pub unsafe fn FlushInstructionCache(_p: *mut c_void, addr: *const c_void, size: usize) -> i32 {
            flush("FlushInstructionCache", addr as u64, size as u64);
            1
        }
        pub unsafe fn GetCurrentProcess() -> *mut c_void {
            !0usize as *mut c_void
        }
        pub unsafe fn get_page_size() -> usize {
            4096
        }
    }
}

macro_rules! arm64_variant {
    ($name:ident, $dir:literal) => {
        #[allow(dead_code, unused_imports, unused_variables, unused_unsafe, unreachable_code, clippy::all)]
        pub mod $name {
            pub mod common { include!(concat!(env!("OUT_DIR"), "/", $dir, "/common.rs")); }
            pub mod utils { include!(concat!(env!("OUT_DIR"), "/", $dir, "/utils.rs")); }
            pub mod arm64_codegenerator { include!(concat!(env!("OUT_DIR"), "/", $dir, "/arm64_codegenerator.rs")); }
            pub mod patch_trait { include!(concat!(env!("OUT_DIR"), "/", $dir, "/patch_trait.rs")); }
            pub mod patch_arm64 { include!(concat!(env!("OUT_DIR"), "/", $dir, "/patch_arm64.rs")); }
            pub unsafe fn install(src: u64, fake: u64, kind: &str, v: bool) -> common::PatchGuard {
                use patch_trait::PatchTrait;
                let f = |a: u64| common::FuncPtrInternal::new(std::ptr::NonNull::new(a as usize as *mut ()).unwrap());
                if kind == "bool" { patch_arm64::PatchArm64::replace_function_return_boolean(f(src), v) } else { patch_arm64::PatchArm64::replace_function_with_other_function(f(src), f(fake)) }
            }
            pub unsafe fn alloc(src: u64) -> u64 {
                common::allocate_jit_memory(&common::FuncPtrInternal::new(std::ptr::NonNull::new(src as usize as *mut ()).unwrap()), 64) as u64
            }
        }
    };
}
macro_rules! x64_variant {
    ($name:ident, $dir:literal) => {
        #[allow(dead_code, unused_imports, unused_variables, unused_unsafe, unreachable_code, clippy::all)]
        pub mod $name {
            pub mod common { include!(concat!(env!("OUT_DIR"), "/", $dir, "/common.rs")); }
            pub mod patch_trait { include!(concat!(env!("OUT_DIR"), "/", $dir, "/patch_trait.rs")); }
            pub mod patch_amd64 { include!(concat!(env!("OUT_DIR"), "/", $dir, "/patch_amd64.rs")); }
            pub unsafe fn install(src: u64, fake: u64, kind: &str, v: bool) -> common::PatchGuard {
                use patch_trait::PatchTrait;
                let f = |a: u64| common::FuncPtrInternal::new(std::ptr::NonNull::new(a as usize as *mut ()).unwrap());
                if kind == "bool" { patch_amd64::PatchAmd64::replace_function_return_boolean(f(src), v) } else { patch_amd64::PatchAmd64::replace_function_with_other_function(f(src), f(fake)) }
            }
            pub unsafe fn alloc(src: u64) -> u64 {
                common::allocate_jit_memory(&common::FuncPtrInternal::new(std::ptr::NonNull::new(src as usize as *mut ()).unwrap()), 64) as u64
            }
        }
    };
}
#[allow(dead_code, unused_imports, unused_variables, unused_unsafe, unreachable_code, clippy::all)]
pub mod plat_linux_arm {
    pub mod common { include!(concat!(env!("OUT_DIR"), "/plat_linux_arm/common.rs")); }
    pub mod patch_trait { include!(concat!(env!("OUT_DIR"), "/plat_linux_arm/patch_trait.rs")); }
    pub mod patch_arm { include!(concat!(env!("OUT_DIR"), "/plat_linux_arm/patch_arm.rs")); }
    pub unsafe fn install(src: u64, fake: u64, kind: &str, v: bool) -> common::PatchGuard {
        use patch_trait::PatchTrait;
        let f = |a: u64| common::FuncPtrInternal::new(std::ptr::NonNull::new(a as usize as *mut ()).unwrap());
        if kind == "bool" { patch_arm::PatchArm::replace_function_return_boolean(f(src), v) } else { patch_arm::PatchArm::replace_function_with_other_function(f(src), f(fake)) }
    }
}
arm64_variant!(plat_macos_a64, "plat_macos_a64");
arm64_variant!(plat_windows_a64, "plat_windows_a64");
arm64_variant!(plat_linux_a64, "plat_linux_a64");
x64_variant!(plat_macos_x64, "plat_macos_x64");
x64_variant!(plat_windows_x64, "plat_windows_x64");
x64_variant!(plat_linux_x64, "plat_linux_x64");

fn run_case(c: &Value) {
    let variant = c.get("variant").and_then(|x| x.as_str()).unwrap_or("").to_string();
    let off = c.get("off").and_then(|x| x.as_u64()).unwrap_or(64);
    let kinds: Vec<String> = c.get("installs").and_then(|x| x.as_array()).map(|a| a.iter().filter_map(|x| x.as_str().map(String::from)).collect()).unwrap_or_else(|| vec!["jump".into()]);
    let fake = c.get("fake").and_then(|x| x.as_u64()).unwrap_or(0x7f12_3456_7000);
    // arena: page 0 = target function (its entry may straddle into page 1), pages 2.. = what the allocator may get
    let len = ARENA_PAGES * 4096;
    let raw = unsafe { libc::mmap(std::ptr::null_mut(), len + 0x10000, libc::PROT_READ | libc::PROT_WRITE, libc::MAP_PRIVATE | libc::MAP_ANONYMOUS, -1, 0) } as u64;
    assert!((raw as i64) > 0);
    let base = (raw + 0xffff) & !0xffff;
    let near = c.get("kernel").and_then(|x| x.as_str()) == Some("near");
    let mem = unsafe { std::slice::from_raw_parts_mut(base as *mut u8, len) };
    for (i, b) in mem.iter_mut().enumerate() {
        *b = ((i as u64).wrapping_mul(0x9E37) >> 3) as u8 | 1;
    }
    PS.with(|p| *p.borrow_mut() = Some(Plat { base, snap: mem.to_vec(), handed: Vec::new(), calls: 0, fail_protect: false, near, win: variant.starts_with("windows"), refused: 0 }));
    let src = base + off;
    // fake = 0 in the scenario: a replacement close to the trampolines (x86-64 short trampoline form): the arena's last page
    let fake = if fake == 0 { base + (ARENA_PAGES as u64 - 1) * 4096 + 0x80 } else { fake };
    let orig: Vec<u8> = mem[off as usize..off as usize + 16].to_vec();
    emit(json!({"ev":"PBegin","variant":variant,"off":off,"installs":kinds,"arena":len}));
    let r = std::panic::catch_unwind(|| unsafe {
        macro_rules! life {
            ($m:ident) => {{
                // as InjectorPP::drop does it: newest first, also when an installation panics half-way
                struct Newest<T>(Vec<T>);
                impl<T> Drop for Newest<T> {
                    fn drop(&mut self) {
                        while let Some(g) = self.0.pop() {
                            drop(g);
                            observe();
                            emit(json!({"ev":"PReturn","after":"drop"}));
                        }
                    }
                }
                let mut guards = Newest(Vec::new());
                for k in &kinds {
                    let g = $m::install(src, fake, if k.starts_with("bool") { "bool" } else { "jump" }, k == "bool1");
                    observe();
                    PS.with(|p| p.borrow_mut().as_mut().unwrap().refused = 0);
                    emit(json!({"ev":"PReturn","after":"install"}));
                    guards.0.push(g);
                }
                drop(guards);
            }};
        }
        match variant.as_str() {
            "macos-a64" => life!(plat_macos_a64),
            "windows-a64" => life!(plat_windows_a64),
            "linux-a64" => life!(plat_linux_a64),
            "macos-x64" => life!(plat_macos_x64),
            "windows-x64" => life!(plat_windows_x64),
            "linux-x64" => life!(plat_linux_x64),
            "linux-arm" => life!(plat_linux_arm),
            x => panic!("harness: unknown variant {x}"),
        }
    });
    observe();
    let restored = mem[off as usize..off as usize + 16] == orig[..];
    let held = PS.with(|p| p.borrow().as_ref().map(|x| x.handed.len()).unwrap_or(0));
    let refused = PS.with(|p| p.borrow().as_ref().map(|x| x.refused).unwrap_or(0));
    emit(json!({"ev":"PEnd","outcome": if r.is_ok() { "ok" } else { "panic" },"restored":restored,"held":held,"refused_in_call":refused.min(1 << 30),
        "msg": r.err().map(|e| crate::panics::payload_str(&*e)).unwrap_or_default()}));
    PS.with(|p| *p.borrow_mut() = None);
    unsafe { libc::munmap(raw as *mut libc::c_void, len + 0x10000) };
}

/// allocator-only case: {"mode":"alloc","variant":..,"src":..,"free_deltas":[page deltas],"elsewhere":addr|0,"null_answer":addr|0}
fn run_alloc(c: &Value) {
    let variant = c.get("variant").and_then(|x| x.as_str()).unwrap_or("").to_string();
    let src = c.get("src").and_then(|x| x.as_u64()).unwrap_or(0);
    let mut pol = AllocPolicy::default();
    for d in c.get("free_deltas").and_then(|x| x.as_array()).cloned().unwrap_or_default() {
        let pg = (src & !0xfff) as i128 + d.as_i64().unwrap_or(0) as i128 * 4096;
        if pg > 0 && pg < (1i128 << 47) {
            pol.free.insert(pg as u64);
        }
    }
    // the function's own code occupies its page(s)
    pol.free.remove(&(src & !0xfff));
    pol.free.remove(&((src + 15) & !0xfff));
    pol.elsewhere = c.get("elsewhere").and_then(|x| x.as_u64()).unwrap_or(0);
    pol.null_answer = c.get("null_answer").and_then(|x| x.as_u64()).unwrap_or(0);
    AP.with(|a| *a.borrow_mut() = Some(pol));
    emit(json!({"ev":"PAllocBegin","variant":variant,"src":crate::events::a8(src)}));
    let r = std::panic::catch_unwind(|| unsafe {
        match variant.as_str() {
            "macos-a64" => plat_macos_a64::alloc(src),
            "windows-a64" => plat_windows_a64::alloc(src),
            "linux-a64" => plat_linux_a64::alloc(src),
            "macos-x64" => plat_macos_x64::alloc(src),
            "windows-x64" => plat_windows_x64::alloc(src),
            "linux-x64" => plat_linux_x64::alloc(src),
            x => panic!("harness: unknown variant {x}"),
        }
    });
    let (held, calls) = AP.with(|a| a.borrow().as_ref().map(|p| (p.handed.clone(), p.calls)).unwrap_or_default());
    AP.with(|a| *a.borrow_mut() = None);
    match r {
        Ok(p) => emit(json!({"ev":"PAllocEnd","outcome":"ok","addr":crate::events::a8(p),"held":held.len(),"only_result_held":held == vec![p],"calls":calls})),
        Err(e) => emit(json!({"ev":"PAllocEnd","outcome":"panic","addr":crate::events::a8(0),"held":held.len(),"only_result_held":held.is_empty(),"calls":calls,
            "msg":crate::panics::payload_str(&*e)})),
    }
}

pub fn run(script: &str, out: &str) {
    crate::events::open(out);
    crate::panics::install_hook();
    let text = std::fs::read_to_string(script).expect("script");
    for line in text.lines() {
        if line.trim().is_empty() {
            continue;
        }
        let sc: Value = serde_json::from_str(line).expect("scenario json");
        SCENARIO.store(sc.get("id").and_then(|x| x.as_u64()).unwrap_or(0), SeqCst);
        if sc.get("mode").and_then(|x| x.as_str()) == Some("alloc") {
            run_alloc(&sc);
        } else {
            run_case(&sc);
        }
    }
}
