//! Simulated architectures and platforms (DESIGN.md 4.1): the repository's emitters (arm64, arm, amd64), its Windows
//! trampoline allocator and its whole OS-facing layer (common.rs), compiled on this host from the repository's own text
//! (build.rs) against shims.  A crate of its own: a change to the library that these textual builds cannot follow makes
//! only the simulated parts of the checks unavailable, never the native harness.
#![allow(clippy::all)]
#![allow(dead_code)]

#[path = "../../harness/src/events.rs"]
mod events;
mod panics;
mod platsim;
mod sim;
mod winsim;

pub fn tid() -> u64 {
    1
}

pub fn seed_from_env() -> u64 {
    std::env::var("VERIF_SEED").ok().and_then(|s| s.parse().ok()).unwrap_or(1)
}

fn main() {
    let args: Vec<String> = std::env::args().collect();
    if args.len() < 4 {
        eprintln!("usage: verif-harness-sim <driver> <script.json> <out.ndjson>");
        std::process::exit(2);
    }
    match args[1].as_str() {
        "sim" => sim::run(&args[2], &args[3]),
        "winsim" => winsim::run(&args[2], &args[3]),
        "platsim" => platsim::run(&args[2], &args[3]),
        x => {
            eprintln!("unknown driver {x}");
            std::process::exit(2);
        }
    }
}
