//! Simulated architectures: the repository's arm64 / arm / amd64 emitters, compiled on the
//! host against a simulated memory (see build.rs), driven over chosen address tuples.
use crate::events::{a8, emit, SCENARIO};
use serde_json::{json, Value};
use std::cell::RefCell;
use std::collections::BTreeMap;
use std::ptr::NonNull;
use std::sync::atomic::Ordering::SeqCst;

#[derive(Default)]
pub struct SimState {
    pub mem: BTreeMap<u64, u8>,
    pub tramp: u64,
    pub reads: Vec<(u64, usize)>,
    pub writes: Vec<(String, u64, Vec<u8>)>,
    pub allocs: Vec<(u64, usize, u64)>,
    pub guard: Option<(u64, Vec<u8>, usize, u64, usize)>,
}

thread_local! { pub static ST: RefCell<SimState> = RefCell::new(SimState::default()); }

/// content of never-written simulated memory: a fixed function of the address
pub fn background(a: u64) -> u8 {
    ((a.wrapping_mul(0x9E3779B97F4A7C15) >> 56) as u8) | 1
}

pub fn read(addr: u64, len: usize) -> Vec<u8> {
    ST.with(|s| {
        let mut s = s.borrow_mut();
        s.reads.push((addr, len));
        (0..len as u64).map(|i| *s.mem.get(&addr.wrapping_add(i)).unwrap_or(&background(addr.wrapping_add(i)))).collect()
    })
}

pub fn write(kind: &str, addr: u64, bytes: &[u8]) {
    ST.with(|s| {
        let mut s = s.borrow_mut();
        for (i, b) in bytes.iter().enumerate() {
            s.mem.insert(addr.wrapping_add(i as u64), *b);
        }
        s.writes.push((kind.to_string(), addr, bytes.to_vec()));
    })
}

pub fn alloc(src: u64, size: usize) -> u64 {
    ST.with(|s| {
        let mut s = s.borrow_mut();
        let t = s.tramp;
        s.allocs.push((src, size, t));
        t
    })
}

pub fn guard(func: u64, saved: Vec<u8>, size: usize, jit: u64, jit_size: usize) {
    ST.with(|s| s.borrow_mut().guard = Some((func, saved, size, jit, jit_size)));
}

#[allow(dead_code, unused_imports, clippy::all)]
pub mod a64_linux {
    pub mod common { include!(concat!(env!("CARGO_MANIFEST_DIR"), "/src/sim_common.rs")); }
    pub mod utils { include!(concat!(env!("OUT_DIR"), "/a64_linux/utils.rs")); }
    pub mod arm64_codegenerator { include!(concat!(env!("OUT_DIR"), "/a64_linux/arm64_codegenerator.rs")); }
    pub mod patch_trait { include!(concat!(env!("OUT_DIR"), "/a64_linux/patch_trait.rs")); }
    pub mod patch_arm64 { include!(concat!(env!("OUT_DIR"), "/a64_linux/patch_arm64.rs")); }
}
#[allow(dead_code, unused_imports, clippy::all)]
pub mod a64_macos {
    pub mod common { include!(concat!(env!("CARGO_MANIFEST_DIR"), "/src/sim_common.rs")); }
    pub mod utils { include!(concat!(env!("OUT_DIR"), "/a64_macos/utils.rs")); }
    pub mod arm64_codegenerator { include!(concat!(env!("OUT_DIR"), "/a64_macos/arm64_codegenerator.rs")); }
    pub mod patch_trait { include!(concat!(env!("OUT_DIR"), "/a64_macos/patch_trait.rs")); }
    pub mod patch_arm64 { include!(concat!(env!("OUT_DIR"), "/a64_macos/patch_arm64.rs")); }
}
#[allow(dead_code, unused_imports, clippy::all)]
pub mod arm {
    pub mod common { include!(concat!(env!("CARGO_MANIFEST_DIR"), "/src/sim_common.rs")); }
    pub mod patch_trait { include!(concat!(env!("OUT_DIR"), "/arm/patch_trait.rs")); }
    pub mod patch_arm { include!(concat!(env!("OUT_DIR"), "/arm/patch_arm.rs")); }
}
#[allow(dead_code, unused_imports, clippy::all)]
pub mod x64sim {
    pub mod common { include!(concat!(env!("CARGO_MANIFEST_DIR"), "/src/sim_common.rs")); }
    pub mod patch_trait { include!(concat!(env!("OUT_DIR"), "/x64sim/patch_trait.rs")); }
    pub mod patch_amd64 { include!(concat!(env!("OUT_DIR"), "/x64sim/patch_amd64.rs")); }
}

fn nn(a: u64) -> NonNull<()> {
    NonNull::new(a as usize as *mut ()).expect("non-null simulated address")
}

/// run one case: isa, kind (jump/bool), src, tramp, fake
pub fn run_case(isa: &str, kind: &str, src: u64, tramp: u64, fake: u64, v: bool, case: u64) {
    run_case2(isa, kind, src, tramp, fake, v, case, 0)
}

/// `prev_fake` != 0: the function already carries a fake (installed first, through the same emitter, its trampoline one page
/// above `tramp`); the case proper is the SECOND installation on top of it
pub fn run_case2(isa: &str, kind: &str, src: u64, tramp: u64, fake: u64, v: bool, case: u64, prev_fake: u64) {
    run_case3(isa, kind, src, tramp, fake, v, case, prev_fake, &[])
}

/// `orig`: the target's own first bytes (a very short function, say), placed in the simulated memory beforehand
#[allow(clippy::too_many_arguments)]
pub fn run_case3(isa: &str, kind: &str, src: u64, tramp: u64, fake: u64, v: bool, case: u64, prev_fake: u64, orig: &[u8]) {
    ST.with(|s| {
        let mut s = s.borrow_mut();
        *s = SimState::default();
        s.tramp = tramp;
        let b = if isa == "t32" || isa == "a32" { src & !1 } else { src };
        for (i, x) in orig.iter().enumerate() {
            s.mem.insert(b + i as u64, *x);
        }
    });
    if prev_fake != 0 {
        ST.with(|s| s.borrow_mut().tramp = tramp.wrapping_add(0x1000));
        let _ = std::panic::catch_unwind(|| install(isa, "jump", src, prev_fake, false));
        ST.with(|s| {
            let mut s = s.borrow_mut();
            s.tramp = tramp;
            s.reads.clear();
            s.writes.clear();
            s.allocs.clear();
            s.guard = None;
        });
    }
    let base0 = if isa == "t32" || isa == "a32" { src & !1 } else { src };
    let before: Vec<u8> = ST.with(|s| {
        let s = s.borrow();
        (0..16u64).map(|i| *s.mem.get(&(base0 + i)).unwrap_or(&background(base0 + i))).collect()
    });
    let r = std::panic::catch_unwind(|| install(isa, kind, src, fake, v));
    finish_case(isa, kind, src, tramp, fake, v, case, prev_fake, before, r);
}

fn install(isa: &str, kind: &str, src: u64, fake: u64, v: bool) {
    unsafe {
        match isa {
            "a64-linux" => {
                use a64_linux::common::FuncPtrInternal as F;
                use a64_linux::patch_arm64::PatchArm64 as P;
                use a64_linux::patch_trait::PatchTrait;
                if kind == "bool" {
                    let _ = P::replace_function_return_boolean(F::new(nn(src)), v);
                } else {
                    let _ = P::replace_function_with_other_function(F::new(nn(src)), F::new(nn(fake)));
                }
            }
            "a64-macos" => {
                use a64_macos::common::FuncPtrInternal as F;
                use a64_macos::patch_arm64::PatchArm64 as P;
                use a64_macos::patch_trait::PatchTrait;
                if kind == "bool" {
                    let _ = P::replace_function_return_boolean(F::new(nn(src)), v);
                } else {
                    let _ = P::replace_function_with_other_function(F::new(nn(src)), F::new(nn(fake)));
                }
            }
            "a32" | "t32" => {
                use arm::common::FuncPtrInternal as F;
                use arm::patch_arm::PatchArm as P;
                use arm::patch_trait::PatchTrait;
                if kind == "bool" {
                    let _ = P::replace_function_return_boolean(F::new(nn(src)), v);
                } else {
                    let _ = P::replace_function_with_other_function(F::new(nn(src)), F::new(nn(fake)));
                }
            }
            "x64-sim" => {
                use x64sim::common::FuncPtrInternal as F;
                use x64sim::patch_amd64::PatchAmd64 as P;
                use x64sim::patch_trait::PatchTrait;
                if kind == "bool" {
                    let _ = P::replace_function_return_boolean(F::new(nn(src)), v);
                } else {
                    let _ = P::replace_function_with_other_function(F::new(nn(src)), F::new(nn(fake)));
                }
            }
            x => panic!("harness: unknown isa {x}"),
        }
    }
}

#[allow(clippy::too_many_arguments)]
fn finish_case(isa: &str, kind: &str, src: u64, tramp: u64, fake: u64, v: bool, case: u64, prev_fake: u64, before: Vec<u8>,
               r: Result<(), Box<dyn std::any::Any + Send>>) {
    let (outcome, msg) = match &r {
        Ok(()) => ("ok", String::new()),
        Err(p) => ("panic", crate::panics::payload_str(&**p)),
    };
    ST.with(|s| {
        let s = s.borrow();
        // entry image = 16 bytes at the (Thumb-bit-stripped) entry after all writes; the bytes
        // that were there before; trampoline image = 24 bytes at the trampoline
        let base = if isa == "t32" || isa == "a32" { src & !1 } else { src };
        let img = |a: u64, n: u64| -> Vec<u8> { (0..n).map(|i| *s.mem.get(&(a + i)).unwrap_or(&background(a + i))).collect() };
        let writes: Vec<Value> = s.writes.iter().map(|(k, a, b)| json!({"kind":k,"addr":a8(*a),"bytes":b})).collect();
        let reads: Vec<Value> = s.reads.iter().map(|(a, l)| json!({"addr":a8(*a),"len":l})).collect();
        let g = match &s.guard {
            Some((f, saved, size, jit, js)) => json!({"some":true,"func":a8(*f),"saved":saved,"size":size,"jit":a8(*jit),"jit_size":js}),
            None => json!({"some":false,"func":a8(0),"saved":[],"size":0,"jit":a8(0),"jit_size":0}),
        };
        // x86-64 forced boolean: a trampoline that forwards to a routine of the library itself (host code of this process)
        let extra: Vec<Value> = if isa == "x64-sim" && kind == "bool" && tramp != 0 { follow_host(tramp, &img(tramp, 24)) } else { Vec::new() };
        emit(json!({"ev":"Sim","isa":isa,"kind":kind,"v": if v {1} else {0},"case":case,"extra":extra,
            "src":a8(src),"base":a8(base),"tramp":a8(tramp),"fake":a8(fake),
            "outcome":outcome,"cls":crate::panics::classify(&msg).0,"msg":msg,
            "entry":img(base, 16),"before":before,"trampb": if tramp != 0 { img(tramp, 24) } else { vec![0u8;24] },
            "nwrites":writes.len(),"writes":writes,"reads":reads,"guard":g,"nalloc":s.allocs.len(),"prev_fake":a8(prev_fake),"refake":prev_fake != 0}));
    });
}

/// first 24 bytes of the host code a simulated trampoline jumps to (`jmp rel32` / `mov rax, imm64; jmp rax` / `jmp [rip+0]`),
/// if that is readable executable memory of this process
fn follow_host(at: u64, code: &[u8]) -> Vec<Value> {
    let dest = if code.len() >= 5 && code[0] == 0xE9 {
        (at + 5).wrapping_add(i32::from_le_bytes([code[1], code[2], code[3], code[4]]) as i64 as u64)
    } else if code.len() >= 12 && code[0] == 0x48 && code[1] == 0xB8 && code[10] == 0xFF && code[11] == 0xE0 {
        u64::from_le_bytes(code[2..10].try_into().unwrap())
    } else if code.len() >= 14 && code[0] == 0xFF && code[1] == 0x25 && code[2..6] == [0, 0, 0, 0] {
        u64::from_le_bytes(code[6..14].try_into().unwrap())
    } else {
        return Vec::new();
    };
    let maps = std::fs::read_to_string("/proc/self/maps").unwrap_or_default();
    let ok = maps.lines().any(|l| {
        let mut it = l.split_whitespace();
        let (range, perms) = (it.next().unwrap_or(""), it.next().unwrap_or(""));
        match range.split_once('-') {
            Some((a, b)) => match (u64::from_str_radix(a, 16), u64::from_str_radix(b, 16)) {
                (Ok(lo), Ok(hi)) => lo <= dest && dest + 24 <= hi && perms.starts_with('r') && perms.as_bytes().get(2) == Some(&b'x'),
                _ => false,
            },
            None => false,
        }
    });
    if !ok {
        return Vec::new();
    }
    let bytes = unsafe { std::slice::from_raw_parts(dest as *const u8, 24) }.to_vec();
    vec![json!({"base": a8(dest), "bytes": bytes})]
}

fn u(v: &Value, k: &str) -> u64 {
    v.get(k).and_then(|x| x.as_u64()).unwrap_or(0)
}

/// script: one JSON object per line = a scenario with a list of cases
/// {"id":1,"cases":[{"isa":"a64-linux","kind":"jump","src":..,"tramp":..,"fake":..,"v":0}, ...]}
pub fn run(script: &str, out: &str) {
    crate::events::open(out);
    crate::panics::install_hook();
    let text = std::fs::read_to_string(script).expect("script");
    for line in text.lines() {
        if line.trim().is_empty() {
            continue;
        }
        let sc: Value = serde_json::from_str(line).expect("scenario json");
        SCENARIO.store(u(&sc, "id"), SeqCst);
        if let Some(cases) = sc.get("cases").and_then(|x| x.as_array()) {
            for (k, c) in cases.iter().enumerate() {
                let orig: Vec<u8> = c.get("orig").and_then(|x| x.as_array()).map(|a| a.iter().filter_map(|x| x.as_u64().map(|y| y as u8)).collect()).unwrap_or_default();
                run_case3(c.get("isa").and_then(|x| x.as_str()).unwrap_or(""), c.get("kind").and_then(|x| x.as_str()).unwrap_or("jump"),
                    u(c, "src"), u(c, "tramp"), u(c, "fake"), u(c, "v") != 0, k as u64 + 1, u(c, "prev_fake"), &orig);
            }
        }
    }
}
