//! The Windows trampoline allocator (`allocate_jit_memory_windows`, both architecture branches), compiled on this host
//! from the repository's own text (build.rs) against a shim of the Win32 items it uses.  VirtualAlloc with an explicit
//! address either reserves exactly there -- rounded DOWN to the 64 KiB allocation granularity -- or fails; it never
//! places the block elsewhere (unlike an mmap hint).  The simulated address space is a set of free 64 KiB blocks.
use crate::events::{a8, emit, SCENARIO};
use serde_json::{json, Value};
use std::cell::RefCell;
use std::collections::BTreeSet;
use std::sync::atomic::Ordering::SeqCst;

#[derive(Default)]
pub struct WinState {
    pub all_free: bool,
    pub free: BTreeSet<u64>,      // 64 KiB-aligned bases that are free (when !all_free)
    pub held: BTreeSet<u64>,      // bases handed out and not released
    pub calls: u64,
    pub quiet: u64,
}
thread_local! { pub static WS: RefCell<WinState> = RefCell::new(WinState::default()); }

#[allow(non_snake_case, dead_code, clippy::all)]
pub mod shim {
    pub use std::ffi::c_void;
    pub const MEM_COMMIT: u32 = 0x1000;
    pub const MEM_RESERVE: u32 = 0x2000;
    pub const MEM_RELEASE: u32 = 0x8000;
    pub const PAGE_EXECUTE_READWRITE: u32 = 0x40;
    pub struct FuncPtrInternal(pub u64);
    impl FuncPtrInternal {
        pub fn as_ptr(&self) -> *const () {
            self.0 as *const ()
        }
    }
    pub unsafe fn get_page_size() -> usize {
        4096
    }
    pub unsafe fn VirtualAlloc(addr: *const c_void, size: usize, ty: u32, prot: u32) -> *mut c_void {
        super::valloc(addr as u64, size, ty, prot) as *mut c_void
    }
    pub unsafe fn VirtualFree(ptr: *mut c_void, size: usize, ty: u32) -> i32 {
        super::vfree(ptr as u64, size, ty)
    }
}

fn valloc(addr: u64, size: usize, ty: u32, prot: u32) -> u64 {
    WS.with(|w| {
        let mut w = w.borrow_mut();
        w.calls += 1;
        let base = addr & !0xffff;
        let ok = addr != 0 && base != 0 && size <= 0x10000 && !w.held.contains(&base) && (w.all_free || w.free.contains(&base))
            && ty == (shim::MEM_COMMIT | shim::MEM_RESERVE) && prot == shim::PAGE_EXECUTE_READWRITE;
        if ok {
            w.held.insert(base);
            emit(json!({"ev":"Try","hint":a8(addr),"ret":a8(base),"ok":true,"n":w.calls}));
            base
        } else {
            w.quiet += 1;
            0
        }
    })
}

fn vfree(ptr: u64, size: usize, ty: u32) -> i32 {
    WS.with(|w| {
        let mut w = w.borrow_mut();
        let ok = size == 0 && ty == shim::MEM_RELEASE && w.held.remove(&ptr);
        emit(json!({"ev":"Release","addr":a8(ptr),"ok":ok}));
        ok as i32
    })
}

#[allow(dead_code, unused_imports, unused_variables, unreachable_code, clippy::all)]
mod a64 {
    use super::shim::*;
    include!(concat!(env!("OUT_DIR"), "/winalloc/a64.rs"));
    pub fn alloc(src: u64, size: usize) -> u64 {
        allocate_jit_memory_windows(&FuncPtrInternal(src), size) as u64
    }
}
#[allow(dead_code, unused_imports, unused_variables, unreachable_code, clippy::all)]
mod x64 {
    use super::shim::*;
    include!(concat!(env!("OUT_DIR"), "/winalloc/x64.rs"));
    pub fn alloc(src: u64, size: usize) -> u64 {
        allocate_jit_memory_windows(&FuncPtrInternal(src), size) as u64
    }
}

fn run_case(c: &Value) {
    let arch = c.get("arch").and_then(|x| x.as_str()).unwrap_or("a64").to_string();
    let src = c.get("src").and_then(|x| x.as_u64()).unwrap_or(0);
    let r: u64 = if arch == "a64" { 0x800_0000 } else { 0x8000_0000 };
    WS.with(|w| {
        let mut w = w.borrow_mut();
        *w = WinState::default();
        w.all_free = c.get("all_free").and_then(|x| x.as_bool()).unwrap_or(false);
        if let Some(fr) = c.get("free_blocks").and_then(|x| x.as_array()) {
            for d in fr {
                // block deltas relative to the 64 KiB block of src
                let b = ((src & !0xffff) as i128 + d.as_i64().unwrap_or(0) as i128 * 0x10000) as i128;
                if b > 0 && b < (1i128 << 47) {
                    w.free.insert(b as u64);
                }
            }
        }
        // the target's own block is occupied
        let own = src & !0xffff;
        w.free.remove(&own);
        if w.all_free {
            w.held.insert(own);
        }
    });
    emit(json!({"ev":"AllocBegin","arch":arch,"kernel":"win","src":a8(src),"r":a8(r),"accept": if arch == "a64" { "a64safe" } else { "le" }}));
    let res = std::panic::catch_unwind(|| if arch == "a64" { a64::alloc(src, 64) } else { x64::alloc(src, 64) });
    let (calls, quiet, held) = WS.with(|w| {
        let w = w.borrow();
        (w.calls, w.quiet, w.held.len())
    });
    let own_held = WS.with(|w| w.borrow().all_free) as usize;
    match res {
        Ok(p) => emit(json!({"ev":"Result","outcome":"ok","addr":a8(p),"tries":calls,"quiet":quiet,"held":held - own_held})),
        Err(e) => emit(json!({"ev":"Result","outcome":"panic","addr":a8(0),"tries":calls,"quiet":quiet,"held":held - own_held,
            "msg":crate::panics::payload_str(&*e)})),
    }
}

pub fn run(script: &str, out: &str) {
    crate::events::open(out);
    crate::panics::install_hook();
    let text = std::fs::read_to_string(script).expect("script");
    for line in text.lines() {
        if line.trim().is_empty() {
            continue;
        }
        let sc: Value = serde_json::from_str(line).expect("scenario json");
        SCENARIO.store(sc.get("id").and_then(|x| x.as_u64()).unwrap_or(0), SeqCst);
        run_case(&sc);
    }
}
