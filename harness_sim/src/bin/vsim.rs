//! One binary per simulated driver (DESIGN.md 4.1): a change to the library that one textual build cannot follow makes only
//! that driver unavailable, the others are still built (cargo build --bins --keep-going).
#![allow(clippy::all)]
#![allow(dead_code)]

#[path = "../../../harness/src/events.rs"]
mod events;
#[path = "../panics.rs"]
mod panics;
#[path = "../sim.rs"]
mod sim;

pub fn tid() -> u64 {
    1
}

pub fn seed_from_env() -> u64 {
    std::env::var("VERIF_SEED").ok().and_then(|s| s.parse().ok()).unwrap_or(1)
}

fn main() {
    let args: Vec<String> = std::env::args().collect();
    if args.len() < 4 || args[1] != "sim" {
        eprintln!("usage: vsim sim <script.json> <out.ndjson>");
        std::process::exit(2);
    }
    sim::run(&args[2], &args[3]);
}
