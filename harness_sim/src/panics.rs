//! Panic accounting for the simulated drivers (no dependency on the library crate).
use std::sync::atomic::{AtomicUsize, Ordering::SeqCst};

include!("../../harness/src/panics_common.rs");

pub static COUNT: AtomicUsize = AtomicUsize::new(0);

pub fn install_hook() {
    std::panic::set_hook(Box::new(|info| {
        COUNT.fetch_add(1, SeqCst);
        if std::env::var("VERIF_LOUD").is_ok() {
            eprintln!("PANIC: {} at {:?}", payload_str(info.payload()), info.location());
        }
    }));
}
