// Shim for the library's `injector_core::common`, include!d once per simulated variant.
// Everything operates on the simulated memory in `crate::sim`; every call is recorded.
use std::ptr::NonNull;

pub(crate) struct FuncPtrInternal(NonNull<()>);

impl FuncPtrInternal {
    pub(crate) unsafe fn new(non_null_ptr: NonNull<()>) -> Self {
        FuncPtrInternal(non_null_ptr)
    }
    pub(crate) fn as_ptr(&self) -> *const () {
        self.0.as_ptr()
    }
}

#[allow(dead_code)]
pub(crate) fn allocate_jit_memory(src: &FuncPtrInternal, code_size: usize) -> *mut u8 {
    crate::sim::alloc(src.as_ptr() as u64, code_size) as *mut u8
}

pub(crate) unsafe fn read_bytes(ptr: *const u8, len: usize) -> Vec<u8> {
    crate::sim::read(ptr as u64, len)
}

pub(crate) unsafe fn inject_asm_code(asm_code: &[u8], dest: *mut u8) {
    crate::sim::write("inject", dest as u64, asm_code);
}

pub(crate) unsafe fn patch_function(func: *mut u8, patch: &[u8]) {
    crate::sim::write("patch", func as u64, patch);
}

pub(crate) struct PatchGuard {
    _private: (),
}

impl PatchGuard {
    pub(crate) fn new(func_ptr: *mut u8, original_bytes: Vec<u8>, patch_size: usize, jit_memory: *mut u8, jit_size: usize) -> Self {
        crate::sim::guard(func_ptr as u64, original_bytes, patch_size, jit_memory as u64, jit_size);
        PatchGuard { _private: () }
    }
}
