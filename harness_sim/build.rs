//! Copies the architecture-specific emitters of /repo into OUT_DIR so that they compile on
//! this x86-64 host against a shim `common` module (simulated memory).  Exactly three textual
//! substitutions are made (DESIGN.md 4.1):
//!   1. the `#![cfg(target_arch = ...)]` line is dropped,
//!   2. `crate::injector_core::` becomes `super::`,
//!   3. `target_os = "macos"` becomes `all()` (macOS variant) or `any()` (other variants).
//! The emitters under test are the repository's own text.
use std::fs;
use std::path::Path;

/// the Windows trampoline allocator (`allocate_jit_memory_windows` in common.rs), text of the function only, once per
/// architecture branch: `target_arch = "aarch64"` / `"x86_64"` become `all()` / `any()` (or the reverse).  It compiles
/// against a shim of the four Win32 items it uses (src/winsim.rs).
/// the stand-in PatchGuard::new of the simulated emitters, with the parameter list that common.rs has right now: parameters are
/// recognised by name (func_ptr, original_bytes, patch_size, jit_memory, jit_size); a missing patch_size is the saved length
fn guard_new(repo: &str, out: &str) {
    let src = fs::read_to_string(format!("{repo}/common.rs")).unwrap_or_default();
    let default = "func_ptr: *mut u8, original_bytes: Vec<u8>, patch_size: usize, jit_memory: *mut u8, jit_size: usize".to_string();
    let mut params = default.clone();
    if let Some(i) = src.find("impl PatchGuard {") {
        let rest = &src[i..];
        if let Some(j) = rest.find("fn new(") {
            let after = &rest[j + 7..];
            if let Some(k) = after.find(") -> Self") {
                params = after[..k].split_whitespace().collect::<Vec<_>>().join(" ").trim_end_matches(',').to_string();
            }
        }
    }
    let has = |n: &str| params.contains(&format!("{n}:"));
    let body = if has("func_ptr") && has("original_bytes") && has("jit_memory") && has("jit_size") {
        format!("impl PatchGuard {{\npub(crate) fn new({params}) -> Self {{\n    let saved: Vec<u8> = original_bytes.to_vec();\n    let size = {};\n    crate::sim::guard(func_ptr as u64, saved, size, jit_memory as u64, jit_size);\n    PatchGuard {{ _private: () }}\n}}\n}}\n",
                if has("patch_size") { "patch_size" } else { "saved.len()" })
    } else {
        format!("impl PatchGuard {{\npub(crate) fn new({default}) -> Self {{\n    crate::sim::guard(func_ptr as u64, original_bytes, patch_size, jit_memory as u64, jit_size);\n    PatchGuard {{ _private: () }}\n}}\n}}\n")
    };
    fs::write(Path::new(out).join("sim_guard_new.rs"), body).unwrap();
}

fn windows_allocator(repo: &str, out: &str) {
    println!("cargo:rerun-if-changed={repo}/common.rs");
    let src = fs::read_to_string(format!("{repo}/common.rs")).unwrap_or_default();
    let lines: Vec<&str> = src.lines().collect();
    let mut body = String::new();
    if let Some(start) = lines.iter().position(|l| l.starts_with("fn allocate_jit_memory_windows")) {
        for l in &lines[start..] {
            body.push_str(l);
            body.push('\n');
            if *l == "}" {
                break;
            }
        }
    } else {
        body.push_str("fn allocate_jit_memory_windows(_src: &FuncPtrInternal, _code_size: usize) -> *mut u8 { panic!(\"harness: allocate_jit_memory_windows not found in common.rs\") }\n");
    }
    // free helper functions of common.rs that the allocator calls (a reach test factored out, ...): pulled in by name, with
    // their cfg attributes dropped, transitively
    let mut have: Vec<String> = vec!["allocate_jit_memory_windows".to_string()];
    loop {
        let mut added = false;
        for (i, l) in lines.iter().enumerate() {
            let t = l.trim_start_matches("pub(crate) ").trim_start_matches("unsafe ");
            if !l.starts_with(' ') && t.starts_with("fn ") {
                let name: String = t[3..].chars().take_while(|c| c.is_alphanumeric() || *c == '_').collect();
                if name.is_empty() || have.contains(&name) || !body.contains(&format!("{name}(")) {
                    continue;
                }
                let mut h = String::new();
                for m in &lines[i..] {
                    h.push_str(m);
                    h.push('\n');
                    if *m == "}" {
                        break;
                    }
                }
                body.push_str(&h);
                have.push(name);
                added = true;
            }
        }
        if !added {
            break;
        }
    }
    let dir = Path::new(out).join("winalloc");
    fs::create_dir_all(&dir).unwrap();
    let a64 = body.replace("target_arch = \"aarch64\"", "all()").replace("target_arch = \"x86_64\"", "any()");
    let x64 = body.replace("target_arch = \"aarch64\"", "any()").replace("target_arch = \"x86_64\"", "all()");
    fs::write(dir.join("a64.rs"), a64).unwrap();
    fs::write(dir.join("x64.rs"), x64).unwrap();
}

/// platform variants of the OS-facing layer: the repository's common.rs *itself* (allocation, page protection, the
/// write + flush primitives, PatchGuard) together with the emitters, compiled on this host for (os, arch) pairs that are
/// not this host, against shims of the OS items (src/platsim.rs).  Substitutions, all textual:
///   `target_os = "<o>"` / `target_arch = "<a>"`  ->  `all()` when it is the variant's, else `any()`;
///   `crate::injector_core::` -> `super::` (emitters) / nothing (common.rs, whose shims are imported by a prelude line);
///   `libc::` -> `libc_shim::`;  the one `asm!("dsb sy", "isb", ..)` statement -> `barrier();`;
///   the `#![cfg(...)]` file attributes are dropped.
fn platform_variants(repo: &str, out: &str) {
    let files = ["common.rs", "patch_arm64.rs", "arm64_codegenerator.rs", "utils.rs", "patch_amd64.rs", "patch_arm.rs", "patch_trait.rs"];
    for (variant, os, arch) in [("plat_linux_arm", "linux", "arm"), ("plat_macos_a64", "macos", "aarch64"), ("plat_macos_x64", "macos", "x86_64"), ("plat_windows_x64", "windows", "x86_64"),
                                ("plat_windows_a64", "windows", "aarch64"), ("plat_linux_a64", "linux", "aarch64"), ("plat_linux_x64", "linux", "x86_64")] {
        let dir = Path::new(out).join(variant);
        fs::create_dir_all(&dir).unwrap();
        for f in files {
            let src = fs::read_to_string(format!("{repo}/{f}")).unwrap_or_else(|_| String::from("// missing in this tree\n"));
            let mut text = String::new();
            if f == "common.rs" {
                text.push_str("#[allow(unused_imports)] use crate::platsim::shims::{barrier, libc_shim, linuxapi, mach2, macosapi, winapi};\n");
            }
            for line in src.lines() {
                if line.trim_start().starts_with("#![cfg(") {
                    continue;
                }
                text.push_str(line);
                text.push('\n');
            }
            for o in ["linux", "macos", "windows"] {
                text = text.replace(&format!("target_os = \"{o}\""), if o == os { "all()" } else { "any()" });
            }
            for a in ["aarch64", "x86_64", "arm"] {
                text = text.replace(&format!("target_arch = \"{a}\""), if a == arch { "all()" } else { "any()" });
            }
            text = text.replace("crate::injector_core::", if f == "common.rs" { "" } else { "super::" });
            text = text.replace("libc::", "libc_shim::");
            text = text.replace("core::arch::asm!(\"dsb sy\", \"isb\", options(nostack, nomem));", "barrier();");
            fs::write(dir.join(f), text).unwrap();
        }
    }
}

fn main() {
    let repo = "/repo/src/injector_core";
    let out = std::env::var("OUT_DIR").unwrap();
    windows_allocator(repo, &out);
    guard_new(repo, &out);
    platform_variants(repo, &out);
    let files = ["patch_arm64.rs", "arm64_codegenerator.rs", "utils.rs", "patch_arm.rs", "patch_amd64.rs", "patch_trait.rs"];
    for f in files {
        println!("cargo:rerun-if-changed={repo}/{f}");
    }
    println!("cargo:rerun-if-changed=build.rs");
    for (variant, macos) in [("a64_linux", false), ("a64_macos", true), ("arm", false), ("x64sim", false)] {
        let dir = Path::new(&out).join(variant);
        fs::create_dir_all(&dir).unwrap();
        for f in files {
            let src = match fs::read_to_string(format!("{repo}/{f}")) {
                Ok(s) => s,
                Err(_) => String::from("// missing in this tree\n"),
            };
            let mut text = String::new();
            for line in src.lines() {
                if line.trim_start().starts_with("#![cfg(target_arch") {
                    continue;
                }
                text.push_str(line);
                text.push('\n');
            }
            let text = text
                .replace("crate::injector_core::", "super::")
                .replace("target_os = \"macos\"", if macos { "all()" } else { "any()" });
            fs::write(dir.join(f), text).unwrap();
        }
    }
}
