//! Copies the architecture-specific emitters of /repo into OUT_DIR so that they compile on
//! this x86-64 host against a shim `common` module (simulated memory).  Exactly three textual
//! substitutions are made (DESIGN.md 4.1):
//!   1. the `#![cfg(target_arch = ...)]` line is dropped,
//!   2. `crate::injector_core::` becomes `super::`,
//!   3. `target_os = "macos"` becomes `all()` (macOS variant) or `any()` (other variants).
//! The emitters under test are the repository's own text.
use std::fs;
use std::path::Path;

/// the Windows trampoline allocator (`allocate_jit_memory_windows` in common.rs), text of the function only, once per
/// architecture branch: `target_arch = "aarch64"` / `"x86_64"` become `all()` / `any()` (or the reverse).  It compiles
/// against a shim of the four Win32 items it uses (src/winsim.rs).
fn windows_allocator(repo: &str, out: &str) {
    println!("cargo:rerun-if-changed={repo}/common.rs");
    let src = fs::read_to_string(format!("{repo}/common.rs")).unwrap_or_default();
    let lines: Vec<&str> = src.lines().collect();
    let mut body = String::new();
    if let Some(start) = lines.iter().position(|l| l.starts_with("fn allocate_jit_memory_windows")) {
        for l in &lines[start..] {
            body.push_str(l);
            body.push('\n');
            if *l == "}" {
                break;
            }
        }
    } else {
        body.push_str("fn allocate_jit_memory_windows(_src: &FuncPtrInternal, _code_size: usize) -> *mut u8 { panic!(\"harness: allocate_jit_memory_windows not found in common.rs\") }\n");
    }
    let dir = Path::new(out).join("winalloc");
    fs::create_dir_all(&dir).unwrap();
    let a64 = body.replace("target_arch = \"aarch64\"", "all()").replace("target_arch = \"x86_64\"", "any()");
    let x64 = body.replace("target_arch = \"aarch64\"", "any()").replace("target_arch = \"x86_64\"", "all()");
    fs::write(dir.join("a64.rs"), a64).unwrap();
    fs::write(dir.join("x64.rs"), x64).unwrap();
}

/// platform variants of the OS-facing layer: the repository's common.rs *itself* (allocation, page protection, the
/// write + flush primitives, PatchGuard) together with the emitters, compiled on this host for (os, arch) pairs that are
/// not this host, against shims of the OS items (src/platsim.rs).  Substitutions, all textual:
///   `target_os = "<o>"` / `target_arch = "<a>"`  ->  `all()` when it is the variant's, else `any()`;
///   `crate::injector_core::` -> `super::` (emitters) / nothing (common.rs, whose shims are imported by a prelude line);
///   `libc::` -> `libc_shim::`;  the one `asm!("dsb sy", "isb", ..)` statement -> `barrier();`;
///   the `#![cfg(...)]` file attributes are dropped.
fn platform_variants(repo: &str, out: &str) {
    let files = ["common.rs", "patch_arm64.rs", "arm64_codegenerator.rs", "utils.rs", "patch_amd64.rs", "patch_arm.rs", "patch_trait.rs"];
    for (variant, os, arch) in [("plat_linux_arm", "linux", "arm"), ("plat_macos_a64", "macos", "aarch64"), ("plat_macos_x64", "macos", "x86_64"), ("plat_windows_x64", "windows", "x86_64"),
                                ("plat_windows_a64", "windows", "aarch64"), ("plat_linux_a64", "linux", "aarch64"), ("plat_linux_x64", "linux", "x86_64")] {
        let dir = Path::new(out).join(variant);
        fs::create_dir_all(&dir).unwrap();
        for f in files {
            let src = fs::read_to_string(format!("{repo}/{f}")).unwrap_or_else(|_| String::from("// missing in this tree\n"));
            let mut text = String::new();
            if f == "common.rs" {
                text.push_str("#[allow(unused_imports)] use crate::platsim::shims::{barrier, libc_shim, linuxapi, mach2, macosapi, winapi};\n");
            }
            for line in src.lines() {
                if line.trim_start().starts_with("#![cfg(") {
                    continue;
                }
                text.push_str(line);
                text.push('\n');
            }
            for o in ["linux", "macos", "windows"] {
                text = text.replace(&format!("target_os = \"{o}\""), if o == os { "all()" } else { "any()" });
            }
            for a in ["aarch64", "x86_64", "arm"] {
                text = text.replace(&format!("target_arch = \"{a}\""), if a == arch { "all()" } else { "any()" });
            }
            text = text.replace("crate::injector_core::", if f == "common.rs" { "" } else { "super::" });
            text = text.replace("libc::", "libc_shim::");
            text = text.replace("core::arch::asm!(\"dsb sy\", \"isb\", options(nostack, nomem));", "barrier();");
            fs::write(dir.join(f), text).unwrap();
        }
    }
}

fn main() {
    let repo = "/repo/src/injector_core";
    let out = std::env::var("OUT_DIR").unwrap();
    windows_allocator(repo, &out);
    platform_variants(repo, &out);
    let files = ["patch_arm64.rs", "arm64_codegenerator.rs", "utils.rs", "patch_arm.rs", "patch_amd64.rs", "patch_trait.rs"];
    for f in files {
        println!("cargo:rerun-if-changed={repo}/{f}");
    }
    println!("cargo:rerun-if-changed=build.rs");
    for (variant, macos) in [("a64_linux", false), ("a64_macos", true), ("arm", false), ("x64sim", false)] {
        let dir = Path::new(&out).join(variant);
        fs::create_dir_all(&dir).unwrap();
        for f in files {
            let src = match fs::read_to_string(format!("{repo}/{f}")) {
                Ok(s) => s,
                Err(_) => String::from("// missing in this tree\n"),
            };
            let mut text = String::new();
            for line in src.lines() {
                if line.trim_start().starts_with("#![cfg(target_arch") {
                    continue;
                }
                text.push_str(line);
                text.push('\n');
            }
            let text = text
                .replace("crate::injector_core::", "super::")
                .replace("target_os = \"macos\"", if macos { "all()" } else { "any()" });
            fs::write(dir.join(f), text).unwrap();
        }
    }
}
